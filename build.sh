#!/bin/bash
# Build the simulator test binary against /repo's current working tree.
# usage: build.sh [race|inst]
set -e
export GOFLAGS=-mod=mod GOPROXY=off GOSUMDB=off GOTOOLCHAIN=local
G=/root/go/pkg/mod/golang.org/toolchain@v0.0.1-go1.25.11.linux-amd64/bin/go
[ -x "$G" ] || G=/opt/veriftools/go1.26.8/bin/go
[ -x "$G" ] || G=go1.26.8
HERE=$(cd "$(dirname "$0")" && pwd)
cd $HERE/sim
cp /repo/go.sum go.sum
mkdir -p $HERE/bin
if [ "$1" = "race" ]; then
  $G test -c -race -tags verif -o $HERE/bin/lssim-race.test .
elif [ "$1" = "inst" ]; then
  # conc-inst: a scratch copy of /repo's working tree in which the small
  # concurrency primitives get a scheduling point before every statement
  INST=$HERE/bin/repo-inst
  rm -rf $INST && mkdir -p $INST
  rsync -a --exclude .git /repo/ $INST/
  $G run ./cmd/instrument $INST utils/climit utils/topics snapshot/storage
  sed "s#=> /repo#=> $INST#" go.mod > go.inst.mod
  cp go.sum go.inst.sum
  $G test -c -modfile=go.inst.mod -tags verif -o $HERE/bin/lssim-inst.test .
  rm -f go.inst.mod go.inst.sum
else
  $G test -c -tags verif -o $HERE/bin/lssim.test .
fi
