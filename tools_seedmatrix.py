#!/usr/bin/env python3
"""Runs every seeded change against the check(s) of the property it breaks.
Applies the patch to /repo, runs the quick check with a budget, undoes the patch.
Writes seeded/<id>/meta.json (detected_by) and seeded/MATRIX.md."""
import glob, json, os, re, subprocess, sys
budget = sys.argv[1] if len(sys.argv) > 1 else "45"
only = sys.argv[2:]  # optional seed id prefixes
rows = []
for d in sorted(glob.glob('/verif/seeded/S*')):
    sid = os.path.basename(d)
    meta = json.load(open(d + '/meta.json'))
    if only and not any(sid.startswith(o) for o in only):
        rows.append((sid, meta, meta.get('detected_by', [])))  # keep the recorded result
        continue
    props = [meta['breaks_property']] + meta.get('also_breaks', [])
    extra = meta.get('also_try', [])
    det = []
    for p in props + extra:
        out = subprocess.run(['/verif/tools_seedrun.sh', d, p, budget], capture_output=True, text=True, errors='replace').stdout
        m = re.search(r'check-exit=(\d+)', out)
        rc = int(m.group(1)) if m else -1
        viol = re.findall(r'oracle=(\S+) signature=(\S+?):', out)
        first = viol[0] if viol else None
        stat = re.search(r'runs=(\d+)', out)
        det.append({"check": p, "exit": rc, "detected": rc == 1, "oracle": first[0] if first else None,
                    "signature": first[1] if first else None, "runs": int(stat.group(1)) if stat else None, "budget_s": int(budget)})
        print(sid, p, rc, first, flush=True)
    meta['detected_by'] = det
    json.dump(meta, open(d + '/meta.json', 'w'), indent=1)
    rows.append((sid, meta, det))
with open('/verif/seeded/MATRIX.md', 'w') as f:
    f.write("# Seeded changes vs checks (quick tier, budget %s s per check)\n\n| seed | breaks | needs | check | result | oracle / signature |\n|---|---|---|---|---|---|\n" % budget)
    for sid, meta, det in rows:
        for x in det:
            f.write("| %s | %s | %s | %s | %s | %s |\n" % (sid, meta['breaks_property'], meta['needs'].replace('|', '/').replace('\n', ' ')[:160], x['check'],
                    "caught (exit 1)" if x['detected'] else "missed (exit %s)" % x['exit'], "%s / %s" % (x['oracle'], x['signature']) if x['oracle'] else ""))
print("done")
