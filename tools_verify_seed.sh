#!/bin/bash
# usage: tools_verify_seed.sh <dir with patch.diff, demo_test.go, meta.json> <scratch worktree>
# Confirms: demo passes on the clean tree; suite passes with patch; demo fails with patch.
set -u
D=$1; WT=$2
export GOFLAGS=-mod=mod GOPROXY=off GOSUMDB=off GOTOOLCHAIN=local
G=/root/go/pkg/mod/golang.org/toolchain@v0.0.1-go1.25.11.linux-amd64/bin/go
cd $WT || exit 9
git checkout -q -- . ; git clean -fdq; rm -f /tmp/vs.$$.out
git checkout -q --detach $(git -C /repo rev-parse HEAD) || exit 9
DEMODIR=$(python3 -c "import json;print(json.load(open('$D/meta.json'))['demo_dir'].strip('/').replace('./',''))")
TESTS=$(grep -o '^func Test[A-Za-z0-9_]*' $D/demo_test.go | sed 's/func //' | paste -sd'|')
run_demo() { cp $D/demo_test.go $WT/$DEMODIR/zz_seed_demo_test.go; (cd $WT && $G test -vet=off -count=1 -run "^($TESTS)\$" ./$DEMODIR/ >/tmp/vs.$$.out 2>&1; echo "exit=$?"); grep -a "^--- \|^ok\|^FAIL\|^panic" /tmp/vs.$$.out | head -8; rm -f $WT/$DEMODIR/zz_seed_demo_test.go; }
echo "== demo on clean tree (expect exit=0)"; run_demo
git apply $D/patch.diff || { echo "PATCH DOES NOT APPLY"; exit 8; }
echo "== demo with patch (expect exit=1)"; run_demo
echo "== suite with patch (expect no lines)"; $G test -vet=off -count=1 ./... 2>&1 | grep -v "no test files" | grep -v "^ok"
$G build -tags verif ./... && echo "verif build ok"
git checkout -q -- . ; git clean -fdq; rm -f /tmp/vs.$$.out
