#!/usr/bin/env python3
"""Regenerates MANIFEST.json from checkcfg.py (claimed checks) and properties.jsonl."""
import json, subprocess, sys
sys.path.insert(0, '/verif')
from checkcfg import PROPS, MANIFEST_TEXT

ids = [json.loads(l)['id'] for l in open('/verif/properties.jsonl')]
hooks = subprocess.run(['git', '-C', '/repo', 'log', '--format=%H %s', '--reverse'], capture_output=True, text=True).stdout.splitlines()
hook_commits = [l.split()[0] for l in hooks if ' verif hook' in l]
checks = []
for i in ids:
    if i not in PROPS:
        continue
    t = MANIFEST_TEXT[i]
    checks.append({
        "property_id": i,
        "quick_cmd": f"./check {i} quick",
        "thorough_cmd": f"./check {i} thorough",
        "evidence_file": f"/verif/evidence/{i}.json",
        "replay_cmd_template": "./check replay {path}",
        "engine": "lssim",
        "level_claimed": {"category": PROPS[i]["level"], "text": t["text"], "design_ref": t.get("design_ref", "DESIGN.md section 3, " + i)},
        "level_note": t["note"],
        "technique": t["technique"],
    })
na = [{"property_id": i, "reason": "check not built yet (work in progress; see DESIGN.md section 3)"} for i in ids if i not in PROPS]
m = {
    "version": 1,
    "setup_cmd": "./build.sh && ./build.sh race && ./build.sh inst",
    "hooks": {
        "guard": "verif",
        "enable": "go test -c -tags verif (./build.sh builds /verif/sim against /repo's working tree with -tags verif)",
        "baseline_off_cmd": "cd /repo && GOFLAGS=-mod=mod GOPROXY=off GOSUMDB=off GOTOOLCHAIN=local /root/go/pkg/mod/golang.org/toolchain@v0.0.1-go1.25.11.linux-amd64/bin/go test -vet=off -count=1 ./...",
        "source_commits": hook_commits,
        "add_only": True,
    },
    "engines": [{"name": "lssim", "path": "/verif/sim", "serves_properties": [c["property_id"] for c in checks],
                 "kind_free_text": "deterministic simulation with fault injection: the real syncer/receiver/downloaders/cleaner/sweeper of N instances with real LMDB run inside one testing/synctest bubble (fake clock) under a seeded single-runner scheduler that parks every goroutine at yield points (bucket seam + guarded verifhook points); simulated object store with fault kinds; simulated applications; one decision tape per run, minimised and replayed exactly"}],
    "checks": checks,
    "not_applicable": na,
    "notes": "Exit 2 of a check means infrastructure trouble (build, nondeterminism, watchdog), never a violation. KNOWN_FINDINGS.txt lists genuine defects that are recorded rather than repaired (KNOWN-FINDING lines, exit 0) and fixed ones (fix: commits in /repo).",
}
json.dump(m, open('/verif/MANIFEST.json', 'w'), indent=1)
print("checks:", [c["property_id"] for c in checks], "n/a:", len(na))
