package lssim

import (
	"fmt"
	"strings"
	"time"
)

// MonC12Fleet judges every Delete issued by the cleaner of a real instance
// in a fleet run with the reference permission model of C12, using what that
// instance really merged and uploaded.
type MonC12Fleet struct {
	BaseMonitor
	firstSeen map[string]map[string]time.Duration // node -> name -> first List start
	lastList  map[string][]string
	// merged[node][instance] = list of (snapshot ts, seq when the merge was reported)
	merged  map[string]map[string][]mergedAt
	stores  map[string][]int // node -> seq of successful stores
	seenEv  map[*Node]int
	Deletes int
}

type mergedAt struct {
	ts  time.Time
	seq int
}

func (m *MonC12Fleet) init() {
	if m.firstSeen == nil {
		m.firstSeen = map[string]map[string]time.Duration{}
		m.lastList = map[string][]string{}
		m.merged = map[string]map[string][]mergedAt{}
		m.stores = map[string][]int{}
		m.seenEv = map[*Node]int{}
	}
}

func (m *MonC12Fleet) StepDone(f *Fleet, actor Actor) {
	m.init()
	for _, n := range f.Nodes {
		evs := n.LoadedEvents()
		for i := m.seenEv[n]; i < len(evs); i++ {
			if pn, ok := ParseSnapName(evs[i].Name); ok {
				if m.merged[n.Name] == nil {
					m.merged[n.Name] = map[string][]mergedAt{}
				}
				m.merged[n.Name][pn.Instance] = append(m.merged[n.Name][pn.Instance], mergedAt{pn.TS, f.Sim.Seq})
			}
		}
		m.seenEv[n] = len(evs)
		if actor.Kind == "harness" && actor.Node == n && n.Inc != 0 && !n.Running {
			// a stopped instance forgets what it merged (kept in memory only)
		}
	}
}

func (m *MonC12Fleet) BucketOp(f *Fleet, op *BucketOp) {
	m.init()
	if op.Node == "" {
		return
	}
	node := op.Node
	if op.Op == "store" && op.Applied && op.Err == "" {
		m.stores[node] = append(m.stores[node], f.Sim.Seq)
	}
	if !strings.Contains(op.Task, "/cleaner#") {
		return
	}
	// the cleaner's state lives in memory: a new incarnation starts afresh
	key := op.Task
	switch op.Op {
	case "list":
		if op.Err != "" {
			return
		}
		m.lastList[key] = op.Names
		if m.firstSeen[key] == nil {
			m.firstSeen[key] = map[string]time.Duration{}
		}
		for _, n := range op.Names {
			if _, ok := m.firstSeen[key][n]; !ok {
				m.firstSeen[key][n] = op.Start
			}
		}
	case "delete":
		m.Deletes++
		cfg := f.Cfg.Cleanup
		name := op.Name
		pn, ok := ParseSnapName(name)
		if !ok || pn.DB != DBName {
			f.Violate(Violation{"C12", "only-own-snapshots", "foreign-object-deleted", fmt.Sprintf("%s deleted %q, not a snapshot of this database", op.Task, name)})
			return
		}
		fs, seen := m.firstSeen[key][name]
		if !seen || op.Start-fs < cfg.MustKeepInterval {
			f.Violate(Violation{"C12", "keep-interval", "deleted-too-early",
				fmt.Sprintf("%s deleted %q %s after first seeing it (seen=%v); must_keep_interval is %s", op.Task, name, op.Start-fs, seen, cfg.MustKeepInterval)})
			return
		}
		newer := false
		for _, other := range m.lastList[key] {
			if on, ok := ParseSnapName(other); ok && on.DB == DBName && on.Instance == pn.Instance && on.TS.After(pn.TS) {
				newer = true
			}
		}
		if newer {
			return
		}
		age := f.Sim.Start.Add(op.Start).Sub(pn.TS)
		if age < cfg.RemoveOldInstancesInterval {
			f.Violate(Violation{"C12", "newest-protected", "newest-of-live-instance-deleted",
				fmt.Sprintf("%s deleted %q, the newest snapshot of %s in its listing, only %s old (remove_old_instances_interval %s)", op.Task, name, pn.Instance, age, cfg.RemoveOldInstancesInterval)})
			return
		}
		// merged by this instance, and a snapshot of its own uploaded afterwards
		proven := false
		for _, ma := range m.merged[node][pn.Instance] {
			if ma.ts.Before(pn.TS) {
				continue
			}
			for _, sseq := range m.stores[node] {
				if sseq > ma.seq && sseq <= op.StartSeq {
					proven = true
				}
			}
		}
		if !proven {
			f.Violate(Violation{"C12", "newest-protected", "stale-newest-deleted-unmerged",
				fmt.Sprintf("%s deleted %q, the newest snapshot of stale instance %s, but instance %s has not merged it and uploaded a snapshot of its own afterwards", op.Task, name, pn.Instance, node)})
			return
		}
		f.Sim.Probe("c12-stale-instance-cleaned")
	}
}
