//go:build !race

package lssim

func raceOff() {}
func raceOn()  {}

const raceBuild = false
