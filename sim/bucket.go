package lssim

import (
	"context"
	"errors"
	"os"
	"sort"
	"strings"
	"time"

	"github.com/PowerDNS/simpleblob"
)

// BucketOp is one entry of the bucket operation log.
type BucketOp struct {
	Seq      int
	Step     int
	Start    time.Duration // when the caller issued the call
	StartSeq int           // event sequence number at that moment
	At       time.Duration // when it completed
	Task     string
	Node     string
	Op       string // list, load, store, delete
	Name     string
	Size     int
	Err      string
	Fault    string
	Names    []string // result of a list
	// Applied reports if the effect of a store/delete was applied
	Applied bool
}

type blob struct {
	data     []byte
	storedAt time.Duration
	by       string
}

// FaultCfg configures the fault kinds of a run (swarm: each run enables a
// random subset). All rates are permille per call.
type FaultCfg struct {
	Active bool // master switch, turned off in the faults-off phase

	ListErr, LoadErr, StoreErr, DeleteErr int // error before effect
	StoreErrAfter, DeleteErrAfter         int // effect applied, error returned
	Latency                               int // extra latency on a call
	MaxLatency                            time.Duration
	StaleList                             int // listing from the recent past
	StaleWindow                           time.Duration
	// StaleShowsDeleted lets a stale listing still show objects deleted
	// within the window. Off by default: the properties quantify over
	// listings in which an instance's snapshots appear in timestamp order,
	// and a deleted object that reappears breaks that order.
	StaleShowsDeleted bool
	Vanish            int // listed object reported as not existing on load
}

var ErrInjected = errors.New("lssim: injected storage error")

// SimBucket is the simulated object store shared by all nodes of a run. It
// implements simpleblob.Interface. Calls made by scheduled tasks park before
// they take effect; calls by the driver take effect immediately.
type SimBucket struct {
	sim   *Sim
	objs  map[string]*blob
	tombs map[string]tomb
	Ops   []BucketOp
	// shown: names each reader has been shown by a listing (monotonic reads)
	shown map[string]map[string]bool
	Cfg   FaultCfg

	// partitioned nodes: all calls fail until the given simulated time
	Partition map[string]time.Duration
	// StoreFailures forces the next n Store calls of a node to fail
	StoreFailures map[string]int
	// FullFor makes every Store of the node fail (full bucket)
	FullFor map[string]bool

	// OnOp is called after every completed operation (oracles hook in here)
	OnOp func(op *BucketOp)
}

type tomb struct {
	data      []byte
	storedAt  time.Duration
	deletedAt time.Duration
}

func NewSimBucket(s *Sim) *SimBucket {
	return &SimBucket{
		sim:           s,
		objs:          map[string]*blob{},
		tombs:         map[string]tomb{},
		Partition:     map[string]time.Duration{},
		StoreFailures: map[string]int{},
		FullFor:       map[string]bool{},
	}
}

var _ simpleblob.Interface = (*SimBucket)(nil)

// enter parks the calling task (if it is one) and returns it.
func (b *SimBucket) enter(point string) *Task {
	t := b.sim.lookup()
	if t != nil {
		b.sim.park(t, point)
	}
	return t
}

func (b *SimBucket) record(t *Task, op BucketOp) *BucketOp {
	op.Seq = len(b.Ops) + 1
	op.Step = b.sim.Step
	op.At = b.sim.Now()
	if t != nil {
		op.Task = t.ID
		if t.Node != nil {
			op.Node = t.Node.Name
		}
	} else if op.Task == "" {
		op.Task = "driver"
	}
	b.Ops = append(b.Ops, op)
	p := &b.Ops[len(b.Ops)-1]
	extra := ""
	if op.Op == "list" {
		extra = " n=" + itoa(len(op.Names))
	}
	b.sim.Logf("  bucket %s %s %s size=%d err=%q fault=%q%s", op.Task, op.Op, op.Name, op.Size, op.Err, op.Fault, extra)
	if b.OnOp != nil {
		b.OnOp(p)
	}
	return p
}

// blocked reports an injected failure that applies to every call of the node.
func (b *SimBucket) blocked(t *Task) string {
	if t == nil || t.Node == nil {
		return ""
	}
	if until, ok := b.Partition[t.Node.Name]; ok {
		if b.sim.Now() < until {
			return "partition"
		}
		delete(b.Partition, t.Node.Name)
	}
	return ""
}

func (b *SimBucket) latency(t *Task, point string) {
	if t == nil || !b.Cfg.Active || b.Cfg.Latency == 0 {
		return
	}
	if !b.sim.T.Chance("lat", b.Cfg.Latency) {
		return
	}
	max := int(b.Cfg.MaxLatency / time.Millisecond)
	if max < 1 {
		max = 1
	}
	d := time.Duration(1+b.sim.T.Choose("latms", max)) * time.Millisecond
	b.sim.Fault("latency")
	b.sim.Logf("  bucket %s latency %s", t.ID, d)
	raceOff()
	time.Sleep(d)
	raceOn()
	b.sim.park(t, point)
}

func (b *SimBucket) chance(t *Task, kind string, permille int) bool {
	if t == nil || !b.Cfg.Active || permille == 0 {
		return false
	}
	if b.sim.T.Chance(kind, permille) {
		b.sim.Fault(kind)
		return true
	}
	return false
}

func (b *SimBucket) List(ctx context.Context, prefix string) (simpleblob.BlobList, error) {
	start, startSeq := b.sim.Now(), b.sim.Seq
	t := b.enter("bucket:list")
	if err := ctx.Err(); err != nil {
		return nil, err
	}
	b.latency(t, "bucket:list:lat")
	if f := b.blocked(t); f != "" {
		b.sim.Fault(f)
		b.record(t, BucketOp{Start: start, StartSeq: startSeq, Op: "list", Name: prefix, Err: ErrInjected.Error(), Fault: f})
		return nil, ErrInjected
	}
	if b.chance(t, "list-err", b.Cfg.ListErr) {
		b.record(t, BucketOp{Start: start, StartSeq: startSeq, Op: "list", Name: prefix, Err: ErrInjected.Error(), Fault: "list-err"})
		return nil, ErrInjected
	}
	fault := ""
	asOf := b.sim.Now()
	if b.chance(t, "stale-list", b.Cfg.StaleList) {
		w := int(b.Cfg.StaleWindow / time.Millisecond)
		if w < 1 {
			w = 1
		}
		asOf -= time.Duration(1+b.sim.T.Choose("stalems", w)) * time.Millisecond
		fault = "stale-list"
	}
	var bl simpleblob.BlobList
	var names []string
	for name, o := range b.objs {
		if !strings.HasPrefix(name, prefix) {
			continue
		}
		if o.storedAt > asOf && !ownObject(t, name) && !b.shownTo(t, name) {
			// Not yet visible in this (stale) listing. A node always sees
			// the objects of its own instance name (read-your-writes: it
			// talks to the site it wrote to; the lag is between sites), and
			// an object that an earlier listing already showed to this node
			// does not disappear again while it exists (monotonic reads: no
			// property quantifies over listings that go back in time).
			continue
		}
		bl = append(bl, simpleblob.Blob{Name: name, Size: int64(len(o.data))})
	}
	if fault != "" && b.Cfg.StaleShowsDeleted {
		for name, tb := range b.tombs {
			if !strings.HasPrefix(name, prefix) {
				continue
			}
			if _, exists := b.objs[name]; exists {
				continue
			}
			if tb.storedAt <= asOf && tb.deletedAt > asOf {
				bl = append(bl, simpleblob.Blob{Name: name, Size: int64(len(tb.data))})
			}
		}
	}
	bl.Sort()
	for _, e := range bl {
		names = append(names, e.Name)
		b.noteShown(t, e.Name)
	}
	b.record(t, BucketOp{Start: start, StartSeq: startSeq, Op: "list", Name: prefix, Names: names, Fault: fault})
	return bl, nil
}

func (b *SimBucket) Load(ctx context.Context, name string) ([]byte, error) {
	start, startSeq := b.sim.Now(), b.sim.Seq
	t := b.enter("bucket:load")
	if err := ctx.Err(); err != nil {
		return nil, err
	}
	b.latency(t, "bucket:load:lat")
	if f := b.blocked(t); f != "" {
		b.sim.Fault(f)
		b.record(t, BucketOp{Start: start, StartSeq: startSeq, Op: "load", Name: name, Err: ErrInjected.Error(), Fault: f})
		return nil, ErrInjected
	}
	if b.chance(t, "load-err", b.Cfg.LoadErr) {
		b.record(t, BucketOp{Start: start, StartSeq: startSeq, Op: "load", Name: name, Err: ErrInjected.Error(), Fault: "load-err"})
		return nil, ErrInjected
	}
	o, ok := b.objs[name]
	if ok && b.chance(t, "vanish", b.Cfg.Vanish) {
		b.record(t, BucketOp{Start: start, StartSeq: startSeq, Op: "load", Name: name, Err: os.ErrNotExist.Error(), Fault: "vanish"})
		return nil, os.ErrNotExist
	}
	if !ok {
		b.record(t, BucketOp{Start: start, StartSeq: startSeq, Op: "load", Name: name, Err: os.ErrNotExist.Error()})
		return nil, os.ErrNotExist
	}
	data := append([]byte(nil), o.data...)
	b.record(t, BucketOp{Start: start, StartSeq: startSeq, Op: "load", Name: name, Size: len(data)})
	return data, nil
}

func (b *SimBucket) Store(ctx context.Context, name string, data []byte) error {
	start, startSeq := b.sim.Now(), b.sim.Seq
	t := b.enter("bucket:store")
	if err := ctx.Err(); err != nil {
		return err
	}
	b.latency(t, "bucket:store:lat")
	if f := b.blocked(t); f != "" {
		b.sim.Fault(f)
		b.record(t, BucketOp{Start: start, StartSeq: startSeq, Op: "store", Name: name, Size: len(data), Err: ErrInjected.Error(), Fault: f})
		return ErrInjected
	}
	if t != nil && t.Node != nil {
		if b.FullFor[t.Node.Name] {
			b.sim.Fault("full")
			b.record(t, BucketOp{Start: start, StartSeq: startSeq, Op: "store", Name: name, Size: len(data), Err: ErrInjected.Error(), Fault: "full"})
			return ErrInjected
		}
		if n := b.StoreFailures[t.Node.Name]; n > 0 {
			b.StoreFailures[t.Node.Name] = n - 1
			b.sim.Fault("store-fail-seq")
			b.record(t, BucketOp{Start: start, StartSeq: startSeq, Op: "store", Name: name, Size: len(data), Err: ErrInjected.Error(), Fault: "store-fail-seq"})
			return ErrInjected
		}
	}
	if b.chance(t, "store-err", b.Cfg.StoreErr) {
		b.record(t, BucketOp{Start: start, StartSeq: startSeq, Op: "store", Name: name, Size: len(data), Err: ErrInjected.Error(), Fault: "store-err"})
		return ErrInjected
	}
	by := "driver"
	if t != nil {
		by = t.ID
	}
	b.objs[name] = &blob{data: append([]byte(nil), data...), storedAt: b.sim.Now(), by: by}
	delete(b.tombs, name)
	if b.chance(t, "store-err-after", b.Cfg.StoreErrAfter) {
		b.record(t, BucketOp{Start: start, StartSeq: startSeq, Op: "store", Name: name, Size: len(data), Err: ErrInjected.Error(), Fault: "store-err-after", Applied: true})
		return ErrInjected
	}
	b.record(t, BucketOp{Start: start, StartSeq: startSeq, Op: "store", Name: name, Size: len(data), Applied: true})
	return nil
}

func (b *SimBucket) Delete(ctx context.Context, name string) error {
	start, startSeq := b.sim.Now(), b.sim.Seq
	t := b.enter("bucket:delete")
	if err := ctx.Err(); err != nil {
		return err
	}
	b.latency(t, "bucket:delete:lat")
	if f := b.blocked(t); f != "" {
		b.sim.Fault(f)
		b.record(t, BucketOp{Start: start, StartSeq: startSeq, Op: "delete", Name: name, Err: ErrInjected.Error(), Fault: f})
		return ErrInjected
	}
	if b.chance(t, "delete-err", b.Cfg.DeleteErr) {
		b.record(t, BucketOp{Start: start, StartSeq: startSeq, Op: "delete", Name: name, Err: ErrInjected.Error(), Fault: "delete-err"})
		return ErrInjected
	}
	applied := false
	if o, ok := b.objs[name]; ok {
		b.tombs[name] = tomb{data: o.data, storedAt: o.storedAt, deletedAt: b.sim.Now()}
		delete(b.objs, name)
		applied = true
	}
	if b.chance(t, "delete-err-after", b.Cfg.DeleteErrAfter) {
		b.record(t, BucketOp{Start: start, StartSeq: startSeq, Op: "delete", Name: name, Err: ErrInjected.Error(), Fault: "delete-err-after", Applied: applied})
		return ErrInjected
	}
	b.record(t, BucketOp{Start: start, StartSeq: startSeq, Op: "delete", Name: name, Applied: applied})
	return nil
}

// ownObject reports if the object name belongs to the calling node's instance.
// reader identifies who is listing: a node (across its incarnations) or a
// driver-side task.
func reader(t *Task) string {
	if t == nil {
		return ""
	}
	if t.Node != nil {
		return "node:" + t.Node.Name
	}
	return "task:" + t.ID
}

func (b *SimBucket) shownTo(t *Task, name string) bool {
	return b.shown[reader(t)][name]
}

func (b *SimBucket) noteShown(t *Task, name string) {
	r := reader(t)
	if b.shown == nil {
		b.shown = map[string]map[string]bool{}
	}
	if b.shown[r] == nil {
		b.shown[r] = map[string]bool{}
	}
	b.shown[r][name] = true
}

func ownObject(t *Task, name string) bool {
	if t == nil || t.Node == nil {
		return false
	}
	return strings.HasPrefix(name, DBName+"__"+t.Node.Name+"__")
}

// --- driver-side access (no parking, no faults) ---

// Put stores an object as the driver (foreign peer, hostile publisher).
func (b *SimBucket) Put(name string, data []byte, by string) {
	b.objs[name] = &blob{data: append([]byte(nil), data...), storedAt: b.sim.Now(), by: by}
	delete(b.tombs, name)
	b.record(nil, BucketOp{Op: "store", Name: name, Size: len(data), Applied: true, Task: by})
}

// Remove deletes an object as the driver (a peer's cleaner outside the fleet).
func (b *SimBucket) Remove(name, by string) {
	if o, ok := b.objs[name]; ok {
		b.tombs[name] = tomb{data: o.data, storedAt: o.storedAt, deletedAt: b.sim.Now()}
		delete(b.objs, name)
		b.record(nil, BucketOp{Op: "delete", Name: name, Applied: true, Task: by})
	}
}

// Names returns the sorted names of all objects.
func (b *SimBucket) Names() []string {
	var names []string
	for n := range b.objs {
		names = append(names, n)
	}
	sort.Strings(names)
	return names
}

func (b *SimBucket) Get(name string) ([]byte, bool) {
	o, ok := b.objs[name]
	if !ok {
		return nil, false
	}
	return o.data, true
}

func (b *SimBucket) StoredBy(name string) string {
	if o, ok := b.objs[name]; ok {
		return o.by
	}
	return ""
}
