package lssim

import (
	"fmt"
	"io"
	"math/rand"
	"os"
	"runtime/debug"
	"sort"
	"strings"
	"testing"
	"testing/synctest"
	"time"

	"github.com/sirupsen/logrus"
)

// RunResult is what one simulated run reports.
type RunResult struct {
	Profile    string         `json:"profile"`
	Property   string         `json:"property"`
	RunSeed    uint64         `json:"run_seed"`
	Index      int            `json:"index"`
	Violations []Violation    `json:"violations,omitempty"`
	LogHash    string         `json:"log_hash"`
	Steps      int            `json:"steps"`
	SimMs      int64          `json:"sim_ms"`
	Draws      int            `json:"draws"`
	Nontrivial bool           `json:"nontrivial"`
	Undecided  string         `json:"undecided,omitempty"`
	Faults     map[string]int `json:"faults,omitempty"`
	Probes     map[string]int `json:"probes,omitempty"`
	Points     map[string]int `json:"points,omitempty"`
	Counts     map[string]int `json:"counts,omitempty"`
	HarnessErr string         `json:"harness_err,omitempty"`
	Mismatch   string         `json:"mismatch,omitempty"`
	log        []string
	tape       []Draw
}

// Profile is a simulation profile: it builds a world from the tape, runs it
// and evaluates the oracles of exactly one property.
type Profile struct {
	Name     string
	Property string
	Run      func(env *RunEnv)
	// NoBubble runs the profile outside a synctest bubble (real goroutine
	// scheduling; used where sync.Mutex waits must be observed).
	NoBubble bool
}

// RunEnv is handed to a profile.
type RunEnv struct {
	T    *testing.T
	Sim  *Sim
	Tape *Tape
	Root string
	Res  *RunResult
}

var profiles = map[string]*Profile{}

func RegisterProfile(p *Profile) { profiles[p.Name] = p }

func ProfileNames() []string {
	var out []string
	for n := range profiles {
		out = append(out, n)
	}
	sort.Strings(out)
	return out
}

var runCounter int

func init() {
	logrus.SetOutput(io.Discard)
	logrus.SetLevel(logrus.PanicLevel)
	if os.Getenv("LSSIM_LOGRUS") != "" {
		// diagnosis only: the system's own log on stderr
		logrus.SetOutput(os.Stderr)
		logrus.SetLevel(logrus.TraceLevel)
	}
}

// scratchRoot is where LMDB directories of runs live.
func scratchRoot() string {
	if d := os.Getenv("LSSIM_SCRATCH"); d != "" {
		return d
	}
	if st, err := os.Stat("/dev/shm"); err == nil && st.IsDir() {
		return "/dev/shm"
	}
	return os.TempDir()
}

// RunOne executes one run of a profile inside a fresh synctest bubble.
func RunOne(t *testing.T, prof *Profile, tape *Tape, runSeed uint64, index int) *RunResult {
	res := &RunResult{Profile: prof.Name, Property: prof.Property, RunSeed: runSeed, Index: index}
	runCounter++
	root, err := os.MkdirTemp(scratchRoot(), fmt.Sprintf("lssim-%d-", os.Getpid()))
	if err != nil {
		res.HarnessErr = err.Error()
		return res
	}
	defer os.RemoveAll(root)
	// The cleaner perturbs its interval with the global math/rand source.
	// With GODEBUG=randseednop=0 (set in go.mod) this seeds it.
	rand.Seed(int64(runSeed)) //nolint:staticcheck
	envSeq = 0

	var sim *Sim
	body := func(t *testing.T) {
		sim = NewSim(tape)
		sim.Activate()
		defer sim.Deactivate()
		env := &RunEnv{T: t, Sim: sim, Tape: tape, Root: root, Res: res}
		prof.Run(env)
	}
	// The bubble runs in a goroutine of its own: when the race detector has
	// reported something, testing ends the calling goroutine (FailNow) after
	// the bubble; the results are collected in a deferred function.
	done := make(chan struct{})
	go func() {
		defer close(done)
		defer func() {
			if r := recover(); r != nil {
				msg := fmt.Sprint(r)
				if !strings.Contains(msg, "deadlock: main bubble goroutine has exited but blocked goroutines remain") {
					res.HarnessErr = "panic: " + msg + "\n" + string(debug.Stack())
				}
				// else: leftover goroutines blocked forever (e.g. a downloader
				// of a crashed node waiting for a token): tolerated.
			}
			if sim != nil {
				res.LogHash = sim.LogHash()
				res.Steps = sim.Step
				res.Faults = sim.Faults
				res.Probes = sim.Probes
				res.Points = sim.PointHits
				res.log = sim.Log()
			}
		}()
		if prof.NoBubble {
			body(t)
		} else {
			synctest.Test(t, body)
		}
	}()
	<-done
	res.Draws = len(tape.Rec)
	res.tape = tape.Rec
	res.Mismatch = tape.Mismatch
	return res
}

// elapsed is only used for reporting throughput (never inside a run).
func elapsed(t0 time.Time) float64 { return time.Since(t0).Seconds() }
