package lssim

import (
	"context"
	"fmt"
	"regexp"
	"sort"
	"strings"
	"testing/synctest"
	"time"

	"github.com/PowerDNS/lightningstream/config"
	"github.com/PowerDNS/lightningstream/lmdbenv"
	"github.com/PowerDNS/lightningstream/snapshot"
	"github.com/PowerDNS/lightningstream/syncer"
	"github.com/PowerDNS/lightningstream/syncer/events"
	"github.com/PowerDNS/lightningstream/syncer/hooks"
	"github.com/PowerDNS/lightningstream/syncer/receiver"
	"github.com/PowerDNS/lmdb-go/lmdb"
	"github.com/c2h5oh/datasize"
	"github.com/sirupsen/logrus"
)

// names-sim (C15). The name functions are pure; what the simulation adds is
// the path a name really travels: a real syncer with an arbitrary raw
// instance name uploads snapshots at simulated instants, the objects sit in
// the bucket among foreign and near-miss names, and a real receiver must pick
// the newest by time and never touch the others. On top of that a seeded
// sweep drives the name builder/parser over the whole 1970-2262 range.

var safeInstance = regexp.MustCompile(`^[a-zA-Z0-9-]+$`)

func ownSanitise(raw string) string {
	var sb strings.Builder
	for _, b := range raw { // per character
		ok := b >= 'a' && b <= 'z' || b >= 'A' && b <= 'Z' || b >= '0' && b <= '9' || b == '-'
		if ok {
			sb.WriteRune(b)
		} else {
			sb.WriteByte('-')
		}
	}
	return sb.String()
}

func runNamesSim(env *RunEnv) {
	sim, t := env.Sim, env.Tape
	var viol []Violation
	violate := func(o, sig, msg string) {
		if len(viol) == 0 {
			viol = append(viol, Violation{"C15", o, sig, msg})
			sim.Logf("VIOLATION C15/%s [%s]: %s", o, sig, msg)
		}
	}
	raws := []string{"a", "host.example.com", "ns_1", "a__b", "trailing_", "_leading", "ünïcode", "with space", "A-Z09", "a/b", "..", "__", "x__y__z", "tab\there", strings.Repeat("long", 60), "a.b-c_d", "-", "0"}
	dbs := []string{"db", "my-db1", "A", "db-2", "0"}
	raw := raws[t.Choose("nm-raw", len(raws))]
	db := dbs[t.Choose("nm-db", len(dbs))]
	// The process may run in any time zone: the fake clock's Local location is
	// set to a fixed non-UTC zone in most runs (names are documented as UTC).
	zone := []*time.Location{time.UTC, time.FixedZone("plus2", 2*3600), time.FixedZone("minus5", -5*3600), time.FixedZone("plus545", 5*3600+45*60)}[t.Choose("nm-zone", 4)]
	oldLocal := time.Local
	time.Local = zone
	defer func() { time.Local = oldLocal }()
	sim.Logf("cfg names-sim raw=%q db=%q zone=%s", raw, db, zone)

	// --- part 1: a real syncer uploads under that name ---
	e, err := lmdbenv.NewWithOptions(env.Root+"/names", lmdbenv.Options{Create: true, MapSize: 16 * datasize.MB, EnvFlags: lmdb.NoSync | lmdb.NoMetaSync})
	if err != nil {
		env.Res.HarnessErr = err.Error()
		return
	}
	defer e.Close()
	b := NewSimBucket(sim)
	c, lc := DefaultConf(raw, true)
	c.LMDBs = map[string]config.LMDB{db: lc}
	s, err := syncer.New(db, e, b, c, lc, syncer.Options{})
	if err != nil {
		env.Res.HarnessErr = err.Error()
		return
	}
	synctest.Wait()
	for _, k := range []string{"store", "list", "load"} {
		healthzDeregister(fmt.Sprintf("%s_storage_%s_failed_duration", db, k))
	}
	healthzDeregister(fmt.Sprintf("%s_startup_in_progress", db))
	type upload struct {
		name          string
		before, after time.Time
	}
	var ups []upload
	nup := 2 + t.Choose("nm-nup", 3)
	for i := 0; i < nup && len(viol) == 0; i++ {
		// nanosecond, second and minute carries
		d := []time.Duration{1, 999, time.Microsecond, 999999999, time.Second, time.Second - 1, 59*time.Second + 999999999, time.Minute, 86399 * time.Second}[t.Choose("nm-gap", 9)]
		time.Sleep(d)
		_ = e.Update(func(txn *lmdb.Txn) error {
			dbi, err := txn.OpenDBI("d", lmdb.Create)
			if err != nil {
				return err
			}
			return txn.Put(dbi, []byte("k"), MakeHdr(uint64(time.Now().UnixNano()), uint64(txn.ID()), 0, 0, []byte(fmt.Sprint(i))), 0)
		})
		before := time.Now()
		known := map[string]bool{}
		for _, n := range b.Names() {
			known[n] = true
		}
		if _, err := s.SendOnce(context.Background(), e); err != nil {
			violate("upload", "sendonce-error", "SendOnce failed: "+err.Error())
			break
		}
		for _, n := range b.Names() {
			if !known[n] {
				ups = append(ups, upload{n, before, time.Now()})
				sim.Logf("  uploaded %s", n)
			}
		}
	}
	wantInst := ownSanitise(raw)
	for _, u := range ups {
		if len(viol) > 0 {
			break
		}
		pn, ok := ParseSnapName(u.name)
		if !ok {
			violate("built-name-parses", "built-name-unparsable", fmt.Sprintf("instance %q uploaded %q, which does not follow the documented name format", raw, u.name))
			break
		}
		if pn.DB != db || pn.Instance != wantInst || !safeInstance.MatchString(pn.Instance) {
			violate("built-name-parses", "wrong-components", fmt.Sprintf("instance %q (safe form %q) of database %q uploaded %q: parsed database %q instance %q", raw, wantInst, db, u.name, pn.DB, pn.Instance))
			break
		}
		if pn.TS.Before(u.before) || pn.TS.After(u.after) {
			violate("built-name-parses", "wrong-time", fmt.Sprintf("%q carries time %v, uploaded between %v and %v", u.name, pn.TS, u.before, u.after))
			break
		}
		ni, err := snapshot.ParseName(u.name)
		if err != nil {
			violate("roundtrip", "own-name-rejected", fmt.Sprintf("ParseName rejects the uploaded name %q: %v", u.name, err))
			break
		}
		if ni.SyncerName != db || ni.InstanceID != wantInst || !ni.Timestamp.Equal(pn.TS) || ni.GenerationID != pn.Gen || ni.BuildName() != u.name {
			violate("roundtrip", "roundtrip-differs", fmt.Sprintf("ParseName(%q) = db %q instance %q time %v gen %q, rebuilt %q", u.name, ni.SyncerName, ni.InstanceID, ni.Timestamp, ni.GenerationID, ni.BuildName()))
			break
		}
	}
	for i := 1; i < len(ups) && len(viol) == 0; i++ {
		if !(ups[i-1].name < ups[i].name) {
			violate("chronological-order", "byte-order-not-time-order", fmt.Sprintf("later upload %q does not sort after %q", ups[i].name, ups[i-1].name))
		}
	}

	// --- part 2: a real receiver among foreign objects ---
	if len(viol) == 0 && len(ups) > 0 {
		foreign := []string{
			db + "__junk", db + "__" + wantInst + "__nots__GX.pb.gz", db + "__" + wantInst + "__20990101-000000-000000000__GX.txt",
			db + "__" + wantInst + "__20990101-000000-000000000.pb.gz", db + "__" + wantInst + "__20990101_000000_000000000__GX.pb.gz",
			db + "x__" + wantInst + "__20990101-000000-000000000__GX.pb.gz", "other__" + wantInst + "__20990101-000000-000000000__GX.pb.gz",
			db + "__" + wantInst + "__20990101-000000-000000000__GX.pb.gz.tmp", db + ".pb.gz", db + "__",
			db + "__" + wantInst + "__2099010-0000000-000000000__GX.pb.gz",
		}
		for _, f := range foreign {
			if t.Chance("nm-foreign", 600) {
				b.Put(f, []byte("foreign object, not a snapshot"), "world")
			}
		}
		loadsBefore := len(b.Ops)
		r := receiver.New(b, c, db, logrus.StandardLogger(), "someone-else", events.New(), hooks.New())
		synctest.Wait()
		for _, k := range []string{"list", "load"} {
			healthzDeregister(fmt.Sprintf("%s_storage_%s_failed_duration", db, k))
		}
		ctx, cancel := context.WithCancel(context.Background())
		if err := r.RunOnce(ctx, true); err != nil {
			violate("delivery", "runonce-error", err.Error())
		}
		synctest.Wait()
		inst, upd := r.Next()
		newest := ups[len(ups)-1].name
		if len(viol) == 0 && (inst != wantInst || upd.NameInfo.FullName != newest) {
			violate("delivery", "newest-not-chosen", fmt.Sprintf("the receiver delivered %q for instance %q; the newest snapshot is %q of %q", upd.NameInfo.FullName, inst, newest, wantInst))
		}
		upd.Close()
		if i2, u2 := r.Next(); i2 != "" && len(viol) == 0 {
			violate("delivery", "foreign-object-taken", fmt.Sprintf("the receiver also delivered %q for %q", u2.NameInfo.FullName, i2))
		}
		for _, op := range b.Ops[loadsBefore:] {
			if op.Op == "load" && op.Name != newest && len(viol) == 0 {
				violate("delivery", "foreign-object-loaded", fmt.Sprintf("the receiver loaded %q", op.Name))
			}
		}
		cancel()
		synctest.Wait()
	}

	// --- part 3: seeded sweep of the whole time range through build+parse ---
	if len(viol) == 0 {
		base := []int64{0, 1, 999999999, 1000000000, 946684799999999999, 946684800000000000, 1<<31*1000000000 - 1, 1 << 31 * 1000000000,
			4102444799999999999, 9223372036854775807, 9223372036000000000, 1700000000123456789, 59999999999, 60000000000, 86399999999999, 86400000000000}
		var prevName string
		var prevTS int64 = -1
		var tss []int64
		for i := 0; i < 12; i++ {
			v := base[t.Choose("nm-ts-base", len(base))]
			off := int64(t.Choose("nm-ts-off", 2000)) - 1000
			if v+off >= 0 && v+off > v-2000 {
				v += off
			}
			tss = append(tss, v)
		}
		sort.Slice(tss, func(i, j int) bool { return tss[i] < tss[j] })
		extra := snapshot.NameExtra{}
		if t.Chance("nm-extra", 400) {
			// documented: items start with a unique capital letter other
			// than 'G', sorted, values without "__"
			vals := []string{"", "0", "42", "abc", "a_b", "Z", "9-x", "G"}
			for c := byte('A'); c <= 'Z'; c++ {
				if c != 'G' && t.Chance("nm-extra-type", 120) {
					extra = append(extra, snapshot.NameExtraItem(string(c)+vals[t.Choose("nm-extra-val", len(vals))]))
				}
			}
			if t.Chance("nm-extra-edge", 300) {
				// the ends of the alphabet
				extra = snapshot.NameExtra{"A" + snapshot.NameExtraItem(vals[t.Choose("nm-extra-val", len(vals))]), "Z" + snapshot.NameExtraItem(vals[t.Choose("nm-extra-val", len(vals))])}
			}
		}
		for _, v := range tss {
			ts := time.Unix(0, v).In(zone)
			if t.Chance("nm-ts-utc", 300) {
				ts = ts.UTC()
			}
			ni := snapshot.NameInfo{Kind: snapshot.KindSnapshot, Extension: snapshot.DefaultExtension, SyncerName: db, InstanceID: wantInst, GenerationID: "GX", Timestamp: ts, Extra: extra}
			name := ni.BuildName()
			back, err := snapshot.ParseName(name)
			if err != nil {
				violate("roundtrip", "built-name-rejected", fmt.Sprintf("name built for time %d (%v) is rejected: %q: %v", v, ts, name, err))
				break
			}
			if !back.Timestamp.Equal(ts) || back.SyncerName != db || back.InstanceID != wantInst || back.GenerationID != "GX" || back.Extra.String() != extra.String() {
				violate("roundtrip", "roundtrip-differs", fmt.Sprintf("name %q built for time %d parses to time %d db %q instance %q gen %q extra %q", name, v, back.Timestamp.UnixNano(), back.SyncerName, back.InstanceID, back.GenerationID, back.Extra.String()))
				break
			}
			if pn, ok := ParseSnapName(name); !ok || !pn.TS.Equal(ts) {
				violate("roundtrip", "format-differs-from-documentation", fmt.Sprintf("name %q built for time %d does not follow the documented format", name, v))
				break
			}
			if prevTS >= 0 && v != prevTS && !(prevName < name) {
				violate("chronological-order", "byte-order-not-time-order", fmt.Sprintf("%q (time %d) does not sort after %q (time %d)", name, v, prevName, prevTS))
				break
			}
			prevName, prevTS = name, v
		}
	}
	// arbitrary strings: the parser reports an error or a result, never panics
	if len(viol) == 0 {
		junk := []string{"", ".", "..", "a.pb.gz", "__.pb.gz", "a__b__c__d.pb.gz", "a__b__20000101-000000-000000000__G", "a__b__20000101-000000-00000000x__G.pb.gz",
			"a__b__20000101-000000-000000000__G.pb.gz", "a__b__20000101-000000-000000000__.pb.gz", "a__b__20000101-000000-000000000__G__.pb.gz", strings.Repeat("__", 50) + ".pb.gz"}
		func() {
			defer func() {
				if r := recover(); r != nil {
					violate("parser-total", "parser-panic", fmt.Sprintf("ParseName panicked: %v", r))
				}
			}()
			for _, j := range junk {
				ni, err := snapshot.ParseName(j)
				if err == nil {
					_ = ni.BuildName()
					for _, x := range ni.Extra {
						_ = x.String()
					}
				}
			}
		}()
	}
	env.Res.Violations = viol
	env.Res.Counts = map[string]int{"uploads": len(ups)}
	env.Res.Nontrivial = len(ups) >= 2
}

func init() {
	RegisterProfile(&Profile{Name: "names-sim", Property: "C15", Run: runNamesSim})
}
