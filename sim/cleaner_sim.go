package lssim

import (
	"context"
	"fmt"
	"sort"
	"time"

	"github.com/PowerDNS/lightningstream/config"
	"github.com/PowerDNS/lightningstream/syncer/cleaner"
	"github.com/sirupsen/logrus"
)

// cleaner-sim: the real cleaner.Worker (its Run loop with the perturbed
// interval sleeps on the fake clock) against the simulated bucket. The
// harness plays everything else: instances publishing snapshots in
// timestamp order and going silent, foreign objects, other cleaners, merge
// commit notifications, failing and lagging List/Delete calls.
//
// Oracle: a reference permission model written from the property statement.

func snapName(db, inst string, ts time.Time, extra string) string {
	u := ts.UTC()
	return fmt.Sprintf("%s__%s__%s-%09d__G1%s.pb.gz", db, inst, u.Format("20060102-150405"), u.Nanosecond(), extra)
}

type cleanerWorld struct {
	sim       *Sim
	t         *Tape
	b         *SimBucket
	conf      config.Cleanup
	firstSeen map[string]time.Duration // name -> start of the first List call that returned it
	lastList  []string                 // the last listing handed to the cleaner
	listStart time.Duration
	committed map[string]time.Time
	notes     []commitNote
	viol      []Violation
	deletes   int
	legalNew  int
	legalOld  int
}

type commitNote struct {
	seq int
	m   map[string]time.Time
}

// committedAt returns the merge-commit knowledge the cleaner had when the
// event sequence number was seq.
func (w *cleanerWorld) committedAt(seq int) map[string]time.Time {
	out := map[string]time.Time{}
	for _, n := range w.notes {
		if n.seq > seq {
			break
		}
		for k, v := range n.m {
			out[k] = v
		}
	}
	return out
}

func (w *cleanerWorld) violate(o, sig, msg string) {
	if len(w.viol) == 0 {
		w.viol = append(w.viol, Violation{"C12", o, sig, msg})
		w.sim.Logf("VIOLATION C12/%s [%s]: %s", o, sig, msg)
	}
}

func (w *cleanerWorld) onOp(op *BucketOp) {
	if op.Node != "me" {
		return
	}
	now := w.sim.Now()
	switch op.Op {
	case "list":
		if op.Err != "" {
			return
		}
		w.lastList = op.Names
		for _, n := range op.Names {
			if _, ok := w.firstSeen[n]; !ok {
				w.firstSeen[n] = op.Start
			}
		}
	case "delete":
		w.deletes++
		name := op.Name
		pn, ok := ParseSnapName(name)
		if !ok || pn.DB != DBName {
			w.violate("only-own-snapshots", "foreign-object-deleted",
				fmt.Sprintf("the cleaner deleted %q, which is not a well-formed snapshot of database %s", name, DBName))
			return
		}
		fs, seen := w.firstSeen[name]
		if !seen {
			w.violate("keep-interval", "deleted-never-listed", fmt.Sprintf("the cleaner deleted %q which was never in a listing it received", name))
			return
		}
		if op.Start-fs < w.conf.MustKeepInterval {
			w.violate("keep-interval", "deleted-too-early",
				fmt.Sprintf("the cleaner deleted %q %s after first seeing it; must_keep_interval is %s", name, op.Start-fs, w.conf.MustKeepInterval))
			return
		}
		inList := false
		newer := false
		for _, other := range w.lastList {
			if other == name {
				inList = true
			}
			if on, ok := ParseSnapName(other); ok && on.DB == DBName && on.Instance == pn.Instance && on.TS.After(pn.TS) {
				newer = true
			}
		}
		if !inList {
			w.violate("acts-on-listing", "deleted-not-in-last-listing", fmt.Sprintf("the cleaner deleted %q which is not in the listing it last received", name))
			return
		}
		if newer {
			w.legalNew++
			return
		}
		// newest snapshot of its instance: stale-instance rule
		age := w.sim.Start.Add(now).Sub(pn.TS)
		if age < w.conf.RemoveOldInstancesInterval {
			w.violate("newest-protected", "newest-of-live-instance-deleted",
				fmt.Sprintf("the cleaner deleted %q, the newest snapshot of instance %s in its listing, only %s old; remove_old_instances_interval is %s", name, pn.Instance, age, w.conf.RemoveOldInstancesInterval))
			return
		}
		c, has := w.committedAt(op.StartSeq)[pn.Instance]
		if !has || c.Before(pn.TS) {
			w.violate("newest-protected", "stale-newest-deleted-unmerged",
				fmt.Sprintf("the cleaner deleted %q, the newest snapshot of stale instance %s, but the last merge-commit notification for it is %v (needs >= %v); listing acted on: %v", name, pn.Instance, c, pn.TS, w.lastList))
			return
		}
		w.legalOld++
		w.sim.Probe("c12-stale-instance-cleaned")
	case "store":
		w.violate("no-stores", "cleaner-stored", "the cleaner stored "+op.Name)
	}
}

func runCleanerSim(env *RunEnv) {
	sim, t := env.Sim, env.Tape
	w := &cleanerWorld{sim: sim, t: t, firstSeen: map[string]time.Duration{}, committed: map[string]time.Time{}}
	w.conf = config.Cleanup{
		Enabled:                    true,
		Interval:                   pick(t, "cl-int", 2*time.Second, 500*time.Millisecond, 5*time.Second),
		MustKeepInterval:           pick(t, "cl-keep", 4*time.Second, 0, time.Second, 10*time.Second),
		RemoveOldInstancesInterval: pick(t, "cl-stale", 10*time.Second, 3*time.Second, 30*time.Second, 0),
	}
	b := NewSimBucket(sim)
	w.b = b
	on := func(k string) bool { return t.Choose("cl-f-"+k, 3) == 2 }
	fc := FaultCfg{Active: true, MaxLatency: 3 * time.Second, StaleWindow: 4 * time.Second}
	if on("list") {
		fc.ListErr = 100
	}
	if on("delete") {
		fc.DeleteErr = 120
	}
	if on("delete-after") {
		fc.DeleteErrAfter = 100
	}
	if on("stale") {
		fc.StaleList = 150
	}
	if on("lat") {
		fc.Latency = 150
	}
	b.Cfg = fc
	b.OnOp = w.onOp
	sim.Logf("cfg cleaner-sim conf=%+v faults=%+v", w.conf, fc)

	me := &Node{Name: "me", sim: sim, Inc: 1, Running: true}
	ctx, cancel := context.WithCancel(context.WithValue(context.Background(), nodeKeyT{}, &incRef{node: me, inc: 1}))
	cw := cleaner.New(DBName, b, w.conf, logrus.StandardLogger())
	go func() { _ = cw.Run(ctx) }()

	ninst := 1 + t.Choose("cl-ninst", 4)
	type inst struct {
		name   string
		silent bool
		last   time.Time
		names  []string
	}
	var insts []*inst
	for i := 0; i < ninst; i++ {
		insts = append(insts, &inst{name: fmt.Sprintf("i%d", i)})
	}
	// some instances published long ago (already stale at start)
	for _, in := range insts {
		if t.Chance("cl-old", 250) {
			ts := time.Now().Add(-time.Duration(1+t.Choose("cl-old-s", 100)) * time.Second)
			n := snapName(DBName, in.name, ts, "")
			b.Put(n, []byte("x"), "world")
			in.last = ts
			in.names = append(in.names, n)
			in.silent = t.Chance("cl-old-silent", 700)
		}
	}
	foreign := []string{
		"db__junk", "db__i0__nots__G1.pb.gz", "db__i0__20000101-000000-000000000__G1.txt",
		"db__i0__20000101-000000-000000000.pb.gz", "db__i0__20000101-000000__G1.pb.gz",
		"db__i0__20000101_000000_000000000__G1.pb.gz", "db__", "db__i0__99999999-999999-999999999__G1.pb.gz",
		"other__i0__20000101-000000-000000000__G1.pb.gz", "dbx__i0__20000101-000000-000000000__G1.pb.gz",
		"db__i0__20000101-000000-000000000__G1.pb.gz.tmp", "db__i0__20000101-000000-000000000__G1__X1.pb", "db.pb.gz",
	}

	steps := 150 + t.Choose("cl-steps", 350)
	publishBudget := 5 + t.Choose("cl-pubs", 40)
	for step := 0; step < steps && len(w.viol) == 0; step++ {
		parked := sim.Quiesce()
		if len(w.viol) > 0 {
			break
		}
		weights := []int{0, 0, 0, 0, 0, 0}
		if len(parked) > 0 {
			weights[0] = 500
		}
		if publishBudget > 0 {
			weights[1] = 200
		}
		weights[2] = 40  // foreign object
		weights[3] = 120 // commit notification
		weights[4] = 150 // let time pass
		weights[5] = 30  // someone else deletes an object
		switch t.Weighted("cl-act", weights) {
		case 0:
			tk := parked[t.Choose("run", len(parked))]
			sim.Sleep(time.Duration(1+t.Choose("dus", 2000)) * time.Microsecond)
			sim.Release(tk)
		case 1:
			in := insts[t.Choose("cl-pub-inst", len(insts))]
			if in.silent && !t.Chance("cl-revive", 100) {
				continue
			}
			in.silent = false
			publishBudget--
			sim.Sleep(time.Duration(1+t.Choose("dus", 2000)) * time.Microsecond)
			ts := time.Now()
			// published in timestamp order per instance; the snapshot time
			// may lie a little before it becomes visible (upload duration)
			if back := t.Choose("cl-pub-back", 4); back > 0 {
				cand := ts.Add(-time.Duration(back) * 700 * time.Millisecond)
				if cand.After(in.last) {
					ts = cand
				}
			}
			if !ts.After(in.last) {
				continue
			}
			extra := ""
			if t.Chance("cl-extra", 100) {
				extra = "__X42"
			}
			n := snapName(DBName, in.name, ts, extra)
			b.Put(n, []byte("x"), "world")
			in.last = ts
			in.names = append(in.names, n)
			if t.Chance("cl-go-silent", 150) {
				in.silent = true
			}
		case 2:
			n := foreign[t.Choose("cl-foreign", len(foreign))]
			if t.Chance("cl-foreign-otherdb", 350) && len(insts) > 0 {
				// a current snapshot of another database that shares the
				// bucket and whose name starts with this database's name
				odb := []string{DBName + "x", DBName + "2", DBName + "-eu"}[t.Choose("cl-otherdb", 3)]
				n = snapName(odb, insts[t.Choose("cl-otherdb-inst", len(insts))].name, time.Now(), "")
			}
			b.Put(n, []byte("f"), "world")
		case 3:
			// merge-commit notification: possibly late, partial, for unknown
			// instances, for any of the snapshots published so far
			m := map[string]time.Time{}
			for _, in := range insts {
				if len(in.names) > 0 && t.Chance("cl-commit-inst", 600) {
					pn, _ := ParseSnapName(in.names[t.Choose("cl-commit-which", len(in.names))])
					m[in.name] = pn.TS
				}
			}
			if t.Chance("cl-commit-unknown", 100) {
				m["ghost"] = time.Now()
			}
			for k, v := range m {
				if cur, ok := w.committed[k]; !ok || v.After(cur) || true {
					// SetCommitted copies entries as given (last write wins)
					_ = cur
					w.committed[k] = v
				}
			}
			var ks []string
			for k := range m {
				ks = append(ks, k)
			}
			sort.Strings(ks)
			for _, k := range ks {
				sim.Logf("  commit-notify %s -> %s", k, m[k].UTC().Format("150405.000000000"))
			}
			w.notes = append(w.notes, commitNote{seq: sim.Seq, m: m})
			cw.SetCommitted(m)
		case 4:
			d := time.Duration(1+t.Choose("cl-wait-ms", 6000)) * time.Millisecond
			if len(parked) == 0 {
				sim.Idle(d)
			} else {
				sim.Sleep(d)
			}
		case 5:
			names := b.Names()
			if len(names) > 0 {
				n := names[t.Choose("cl-extdel", len(names))]
				delete(b.objs, n)
				sim.Logf("  external delete %s", n)
			}
		}
	}
	// Liveness: faults off, nobody publishes; superseded snapshots go away.
	if len(w.viol) == 0 {
		b.Cfg.Active = false
		settle := w.conf.MustKeepInterval + 4*w.conf.Interval + 5*time.Second
		end := sim.Now() + settle
		for sim.Now() < end && len(w.viol) == 0 {
			parked := sim.Quiesce()
			if len(parked) == 0 {
				sim.Idle(end - sim.Now())
				continue
			}
			sim.Sleep(time.Millisecond)
			sim.Release(parked[t.Choose("run", len(parked))])
		}
		sim.Quiesce()
		if len(w.viol) == 0 {
			count := map[string]int{}
			for _, n := range b.Names() {
				if pn, ok := ParseSnapName(n); ok && pn.DB == DBName {
					count[pn.Instance]++
				}
			}
			for _, in := range sortedKeys(count) {
				if count[in] > 2 {
					w.violate("bounded-files", "superseded-not-removed",
						fmt.Sprintf("instance %s still has %d snapshot files %s after the last publication (keep %s, interval %s)", in, count[in], settle, w.conf.MustKeepInterval, w.conf.Interval))
				}
			}
			for _, f := range foreign {
				_ = f
			}
		}
	}
	cancel()
	me.deadInc = 1
	for _, tk := range sim.Quiesce() {
		sim.Kill(tk)
	}
	sim.Quiesce()
	env.Res.Violations = w.viol
	env.Res.SimMs = int64(sim.Now() / time.Millisecond)
	env.Res.Counts = map[string]int{"deletes": w.deletes, "deletes_superseded": w.legalNew, "deletes_stale_instance": w.legalOld}
	env.Res.Nontrivial = w.deletes > 0
}

func init() {
	RegisterProfile(&Profile{Name: "cleaner-sim", Property: "C12", Run: runCleanerSim})
}
