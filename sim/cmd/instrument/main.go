// Command instrument inserts a scheduling point before every statement of
// the given packages of a copy of the repository:
//
//	verifhook.Yield(nil, "<pkg>/<file>:<line>")
//
// It is run by build.sh on a scratch copy of /repo's working tree (never on
// /repo itself) to build the conc-inst binary, in which the simulator decides
// the interleaving of goroutines inside the small concurrency primitives
// (utils/climit, utils/topics, snapshot/storage) statement by statement.
package main

import (
	"bytes"
	"fmt"
	"go/ast"
	"go/format"
	"go/parser"
	"go/token"
	"os"
	"path/filepath"
	"strconv"
	"strings"
)

const hookImport = "github.com/PowerDNS/lightningstream/utils/verifhook"

func main() {
	if len(os.Args) < 3 {
		fmt.Fprintln(os.Stderr, "usage: instrument <repo copy> <package dir>...")
		os.Exit(2)
	}
	root := os.Args[1]
	n := 0
	for _, pkg := range os.Args[2:] {
		files, err := filepath.Glob(filepath.Join(root, pkg, "*.go"))
		if err != nil || len(files) == 0 {
			fmt.Fprintf(os.Stderr, "instrument: no Go files in %s\n", pkg)
			os.Exit(2)
		}
		for _, f := range files {
			if strings.HasSuffix(f, "_test.go") {
				continue
			}
			k, err := instrumentFile(f, pkg)
			if err != nil {
				fmt.Fprintf(os.Stderr, "instrument: %s: %v\n", f, err)
				os.Exit(2)
			}
			n += k
		}
	}
	fmt.Printf("instrument: %d scheduling points inserted\n", n)
}

// rewriteSelects makes the choice among several ready cases of a select a
// decision of the simulator instead of the Go runtime's random pick:
//
//	select { case A: a; case B: b }
//
// becomes
//
//	{
//		_lssimDone := false
//		switch verifhook.Pick("sel:<file>:<line>", 2) {
//		case 0: select { case A: _lssimDone = true; a; default: }
//		case 1: select { case B: _lssimDone = true; b; default: }
//		}
//		if !_lssimDone { select { case A: a; case B: b } }
//	}
//
// The preferred case is taken if it is ready; otherwise the original select
// runs (with a single runner at most the other cases are ready then, and a
// change of readiness needs another goroutine to move first). Without a
// harness Pick returns -1 and only the original select runs. Selects with a
// default clause, with a single case or with a label are left alone.
func rewriteSelects(path, pkg string) (int, error) {
	n := 0
	for {
		src, err := os.ReadFile(path)
		if err != nil {
			return n, err
		}
		fset := token.NewFileSet()
		file, err := parser.ParseFile(fset, path, src, parser.ParseComments)
		if err != nil {
			return n, err
		}
		var target *ast.SelectStmt
		var stack []ast.Node
		ast.Inspect(file, func(nd ast.Node) bool {
			if nd == nil {
				stack = stack[:len(stack)-1]
				return true
			}
			if sel, ok := nd.(*ast.SelectStmt); ok && eligible(sel, stack) {
				if target == nil || sel.Pos() > target.Pos() {
					target = sel
				}
			}
			stack = append(stack, nd)
			return true
		})
		if target == nil {
			return n, nil
		}
		off := func(p token.Pos) int { return fset.Position(p).Offset }
		orig := string(src[off(target.Pos()):off(target.End())])
		label := fmt.Sprintf("sel:%s/%s:%d", pkg, filepath.Base(path), fset.Position(target.Pos()).Line)
		var sb strings.Builder
		fmt.Fprintf(&sb, "{\n_lssimDone := false\nswitch verifhook.Pick(%q, %d) {\n", label, len(target.Body.List))
		for i, c := range target.Body.List {
			cc := c.(*ast.CommClause)
			head := string(src[off(cc.Pos()) : off(cc.Colon)+1])
			body := string(src[off(cc.Colon)+1 : off(cc.End())])
			fmt.Fprintf(&sb, "case %d:\nselect {\n%s\n_lssimDone = true\n%s\ndefault:\n}\n", i, head, body)
		}
		fmt.Fprintf(&sb, "}\nif !_lssimDone {\n%s\n}\n", orig)
		if selectTerminates(target) {
			// the select ended every path through it (it may be the last
			// statement of a function with results): keep that visible to
			// the compiler
			sb.WriteString("panic(\"lssim: unreachable\")\n")
		}
		sb.WriteString("}")
		out := string(src[:off(target.Pos())]) + sb.String() + string(src[off(target.End()):])
		if !strings.Contains(out, hookImport) {
			out = strings.Replace(out, "\nimport (", "\nimport (\n\t\""+hookImport+"\"", 1)
		}
		formatted, err := format.Source([]byte(out))
		if err != nil {
			return n, fmt.Errorf("select rewrite at %s: %v", label, err)
		}
		if err := os.WriteFile(path, formatted, 0o644); err != nil {
			return n, err
		}
		n++
	}
}

// selectTerminates reports (conservatively) if a select is a terminating
// statement: every clause ends in a terminating statement and nothing breaks
// out of it.
func selectTerminates(sel *ast.SelectStmt) bool {
	hasBreak := false
	ast.Inspect(sel, func(n ast.Node) bool {
		if b, ok := n.(*ast.BranchStmt); ok && b.Tok == token.BREAK {
			hasBreak = true
		}
		return true
	})
	if hasBreak {
		return false
	}
	for _, c := range sel.Body.List {
		if !listTerminates(c.(*ast.CommClause).Body) {
			return false
		}
	}
	return true
}

func listTerminates(list []ast.Stmt) bool {
	if len(list) == 0 {
		return false
	}
	switch x := list[len(list)-1].(type) {
	case *ast.ReturnStmt:
		return true
	case *ast.ExprStmt:
		if call, ok := x.X.(*ast.CallExpr); ok {
			if id, ok := call.Fun.(*ast.Ident); ok && id.Name == "panic" {
				return true
			}
		}
	case *ast.BlockStmt:
		return listTerminates(x.List)
	case *ast.IfStmt:
		if x.Else == nil {
			return false
		}
		if !listTerminates(x.Body.List) {
			return false
		}
		switch e := x.Else.(type) {
		case *ast.BlockStmt:
			return listTerminates(e.List)
		case *ast.IfStmt:
			return listTerminates([]ast.Stmt{e})
		}
	}
	return false
}

func eligible(sel *ast.SelectStmt, stack []ast.Node) bool {
	if len(sel.Body.List) < 2 {
		return false
	}
	for _, c := range sel.Body.List {
		if c.(*ast.CommClause).Comm == nil {
			return false // has a default clause
		}
	}
	if len(stack) > 0 {
		if _, ok := stack[len(stack)-1].(*ast.LabeledStmt); ok {
			return false
		}
	}
	// the fallback copy of an already rewritten select sits in "if !_lssimDone { ... }"
	for i := len(stack) - 1; i >= 0 && i >= len(stack)-2; i-- {
		if ifs, ok := stack[i].(*ast.IfStmt); ok {
			if u, ok := ifs.Cond.(*ast.UnaryExpr); ok {
				if id, ok := u.X.(*ast.Ident); ok && id.Name == "_lssimDone" {
					return false
				}
			}
		}
	}
	return true
}

func instrumentFile(path, pkg string) (int, error) {
	if _, err := rewriteSelects(path, pkg); err != nil {
		return 0, err
	}
	fset := token.NewFileSet()
	file, err := parser.ParseFile(fset, path, nil, parser.ParseComments)
	if err != nil {
		return 0, err
	}
	count := 0
	base := filepath.Base(path)
	yield := func(pos token.Pos) ast.Stmt {
		count++
		label := fmt.Sprintf("%s/%s:%d", pkg, base, fset.Position(pos).Line)
		return &ast.ExprStmt{X: &ast.CallExpr{
			Fun:  &ast.SelectorExpr{X: ast.NewIdent("verifhook"), Sel: ast.NewIdent("Yield")},
			Args: []ast.Expr{ast.NewIdent("nil"), &ast.BasicLit{Kind: token.STRING, Value: strconv.Quote(label)}},
		}}
	}
	weave := func(list []ast.Stmt) []ast.Stmt {
		var out []ast.Stmt
		for _, s := range list {
			switch s.(type) {
			case *ast.CaseClause, *ast.CommClause:
				// the body of a switch or select: the clauses themselves
				// are instrumented, nothing goes between them
				return list
			}
		}
		for _, s := range list {
			out = append(out, yield(s.Pos()), s)
		}
		return out
	}
	ast.Inspect(file, func(n ast.Node) bool {
		switch x := n.(type) {
		case *ast.BlockStmt:
			x.List = weave(x.List)
		case *ast.CaseClause:
			x.Body = weave(x.Body)
		case *ast.CommClause:
			x.Body = weave(x.Body)
		}
		return true
	})
	if count == 0 {
		return 0, nil
	}
	// import
	has := false
	for _, im := range file.Imports {
		if p, _ := strconv.Unquote(im.Path.Value); p == hookImport {
			has = true
		}
	}
	if !has {
		spec := &ast.ImportSpec{Path: &ast.BasicLit{Kind: token.STRING, Value: strconv.Quote(hookImport)}}
		file.Decls = append([]ast.Decl{&ast.GenDecl{Tok: token.IMPORT, Specs: []ast.Spec{spec}}}, file.Decls...)
	}
	var buf bytes.Buffer
	// positions of the inserted nodes are zero: print without comments
	// interleaving issues by dropping comment groups inside function bodies
	file.Comments = nil
	if err := format.Node(&buf, fset, file); err != nil {
		return 0, err
	}
	return count, os.WriteFile(path, buf.Bytes(), 0o644)
}
