package lssim

import (
	"bytes"
	"compress/gzip"
	"fmt"
	"io"
	"sort"

	"github.com/PowerDNS/lightningstream/snapshot/gogosnapshot"
)

// Reference codec: the generated gogo-protobuf code of the published schema
// plus the standard library gzip. This is what "a standard protobuf
// implementation" yields; it shares no code with the hand-written codec in
// package snapshot.

type RefSnapshot = gogosnapshot.Snapshot

// RefDecode decodes a stored blob with the reference codec.
func RefDecode(blob []byte) (*RefSnapshot, error) {
	zr, err := gzip.NewReader(bytes.NewReader(blob))
	if err != nil {
		return nil, fmt.Errorf("gzip: %w", err)
	}
	pb, err := io.ReadAll(zr)
	if err != nil {
		return nil, fmt.Errorf("gunzip: %w", err)
	}
	var s RefSnapshot
	if err := s.Unmarshal(pb); err != nil {
		return nil, fmt.Errorf("protobuf: %w", err)
	}
	return &s, nil
}

// RefEncode encodes with the reference codec.
func RefEncode(s *RefSnapshot) ([]byte, error) {
	pb, err := s.Marshal()
	if err != nil {
		return nil, err
	}
	return GzipBytes(pb), nil
}

func GzipBytes(pb []byte) []byte {
	var buf bytes.Buffer
	zw := gzip.NewWriter(&buf)
	_, _ = zw.Write(pb)
	_ = zw.Close()
	return buf.Bytes()
}

// RefLogical converts a reference-decoded snapshot into logical content,
// applying the documented meaning of older format versions (version 1: an
// empty value denotes a deletion).
func RefLogical(s *RefSnapshot) Logical {
	out := Logical{}
	for _, d := range s.Databases {
		m := out[d.Name]
		if m == nil {
			m = map[string]Version{}
			out[d.Name] = m
		}
		for _, e := range d.Entries {
			v := Version{TS: e.TimestampNano, Deleted: e.Flags&1 != 0, Val: string(e.Value)}
			if s.FormatVersion < 2 && len(e.Value) == 0 {
				v.Deleted = true
			}
			if v.Deleted {
				v.Val = ""
			}
			m[string(e.Key)] = v
		}
	}
	return out
}

// SnapshotSummary is a short human readable rendering for traces.
func SnapshotSummary(s *RefSnapshot) string {
	l := RefLogical(s)
	var names []string
	for n := range l {
		names = append(names, n)
	}
	sort.Strings(names)
	return fmt.Sprintf("fv=%d inst=%s txn=%d %s", s.FormatVersion, s.Meta.InstanceID, s.Meta.LmdbTxnID, l.String())
}

func gunzip(blob []byte) ([]byte, error) {
	zr, err := gzip.NewReader(bytes.NewReader(blob))
	if err != nil {
		return nil, err
	}
	return io.ReadAll(zr)
}
