package lssim

import (
	"fmt"
	"strings"
	"time"
)

// ---------------------------------------------------------------------------
// C04: deletions propagate, deleted keys are not resurrected, swept markers
// do not bounce.
// ---------------------------------------------------------------------------

type MonC04 struct {
	BaseMonitor
	SweeperOn bool
	Retention time.Duration
	Checked   int
	Markers   int
	Merged    int
	snaps     map[string]Logical // decoded snapshots by name, kept after cleaning
	seenLoads map[*Node]int
	afterLoad map[*Node]*NodeState // state right after the last LoadOnce transaction
}

func (m *MonC04) BucketOp(f *Fleet, op *BucketOp) {
	if op.Op != "store" || !op.Applied {
		return
	}
	if m.snaps == nil {
		m.snaps = map[string]Logical{}
	}
	data, _ := f.Bucket.Get(op.Name)
	if ref, err := RefDecode(data); err == nil {
		m.snaps[op.Name] = RefLogical(ref)
	}
}

// StepDone: whenever an instance reports a snapshot as merged, every
// deletion in that snapshot must have taken effect there: whatever entry the
// instance holds for the key is at least as new as the deletion.
func (m *MonC04) StepDone(f *Fleet, actor Actor) {
	if m.seenLoads == nil {
		m.seenLoads = map[*Node]int{}
		m.afterLoad = map[*Node]*NodeState{}
	}
	if actor.Kind == "ls" && actor.Task != nil && actor.Task.Role == "syncloop" && actor.Task.point == "lmdb:end-write" && actor.Task.relPoint == "sync:before-load" {
		// the state as the merge transaction left it (the application may
		// commit again before the merge is reported)
		m.afterLoad[actor.Node] = f.state[actor.Node]
	}
	for _, n := range f.Nodes {
		evs := n.LoadedEvents()
		for i := m.seenLoads[n]; i < len(evs); i++ {
			snap := m.snaps[evs[i].Name]
			if snap == nil || m.afterLoad[n] == nil {
				continue
			}
			m.Merged++
			cur, _ := m.afterLoad[n].LogicalContent(n.Native)
			for _, dbi := range sortedKeys(snap) {
				for _, k := range sortedKeys(snap[dbi]) {
					e := snap[dbi][k]
					if !e.Deleted {
						continue
					}
					v, ok := cur[dbi][k]
					if ok && v.TS < e.TS && !f.ShadowTaint[dbi+"/"+k] {
						f.Violate(Violation{"C04", "deletion-applied", "merged-deletion-ignored",
							fmt.Sprintf("%s merged %s which deletes %s/%q at ts %d, but afterwards still holds the older %s", n.Name, evs[i].Name, dbi, k, e.TS, v)})
						return
					}
				}
			}
		}
		m.seenLoads[n] = len(evs)
	}
}

func (m *MonC04) NodeChanged(f *Fleet, n *Node, before, after *NodeState, actor Actor) {
	if actor.Kind != "ls" || before == nil || actor.Task == nil {
		return
	}
	if actor.Task.Role == "sweeper" {
		return // C13
	}
	b, _ := before.LogicalContent(n.Native)
	a, _ := after.LogicalContent(n.Native)
	m.Checked++
	// (a) a stored deletion at T is only ever replaced by a version above T
	for _, dbi := range sortedKeys(b) {
		for _, k := range sortedKeys(b[dbi]) {
			ov := b[dbi][k]
			if !ov.Deleted {
				continue
			}
			m.Markers++
			nv, ok := a[dbi][k]
			if ok && nv == ov {
				continue
			}
			if f.ShadowTaint[dbi+"/"+k] {
				continue
			}
			if !ok {
				f.Violate(Violation{"C04", "no-resurrection", "marker-removed",
					fmt.Sprintf("%s: %s removed the deletion marker %s/%q %s", n.Name, actor.Task.ID, dbi, k, ov)})
				return
			}
			if nv.TS <= ov.TS {
				f.Violate(Violation{"C04", "no-resurrection", "deletion-replaced-by-not-newer",
					fmt.Sprintf("%s: %s replaced the deletion %s/%q %s by %s, which does not have a timestamp above it", n.Name, actor.Task.ID, dbi, k, ov, nv)})
				return
			}
		}
	}
	// (shadow) a key the application had deleted does not come back from the
	// version that was stored before the deletion: it may only reappear with
	// a version this transaction newly stored (one that wins against the
	// deletion).
	if !n.Native && n.Steady() {
		appB, appA := before.AppDBIs(), after.AppDBIs()
		for _, dbi := range sortedKeys(appA) {
			dB, ok := appB[dbi]
			if !ok {
				continue
			}
			was := dB.Map()
			for _, k := range sortedKeys(appA[dbi].Map()) {
				if _, present := was[k]; present {
					continue
				}
				bv, bok := b[dbi][k]
				av, aok := a[dbi][k]
				if !bok || !aok || bv.Deleted || av != bv {
					continue
				}
				if f.ShadowTaint[dbi+"/"+k] || f.RaceKeys[n.Name+"/"+dbi+"/"+k] {
					continue
				}
				f.Violate(Violation{"C04", "no-resurrection", "app-deleted-key-restored",
					fmt.Sprintf("%s: the application had deleted %s/%q; %s put it back into the application's DBI from the version %s that was stored before the deletion (no newer version arrived)", n.Name, dbi, k, actor.Task.ID, bv)})
				return
			}
		}
	}
	// merged deletions remove the key from the application's view (shadow)
	if !n.Native {
		app := after.AppDBIs()
		for _, dbi := range sortedKeys(a) {
			d, ok := app[dbi]
			if !ok {
				continue
			}
			am := d.Map()
			for _, k := range sortedKeys(a[dbi]) {
				if a[dbi][k].Deleted {
					if _, present := am[k]; present {
						// only LS transactions that ran the shadow-to-main
						// pass establish this (LoadOnce); SendOnce captures
						if actor.Task.relPoint == "sync:before-load" {
							f.Violate(Violation{"C04", "deletion-applied", "deleted-key-visible",
								fmt.Sprintf("%s: after merging, %s/%q is deleted %s but still present in the application's DBI", n.Name, dbi, k, a[dbi][k])})
							return
						}
					}
				}
			}
		}
	}
	// (c) no bounce: a marker older than the retention cutoff is never
	// re-created on an instance that has no entry for the key
	if m.SweeperOn && m.Retention > 0 {
		// The code takes "now" when the load operation starts, before it
		// waits for the write lock (documented in Syncer.deletedCutoff): the
		// earliest that can have been is when the sync loop left the yield
		// before the load.
		opStart := actor.At
		if actor.Task != nil && !actor.Task.relAt.IsZero() && actor.Task.relAt.Before(opStart) {
			opStart = actor.Task.relAt
		}
		cutoff := uint64(opStart.Add(-m.Retention).UnixNano())
		for _, dbi := range sortedKeys(a) {
			for _, k := range sortedKeys(a[dbi]) {
				nv := a[dbi][k]
				if !nv.Deleted {
					continue
				}
				if _, had := b[dbi][k]; had {
					continue
				}
				if nv.TS < cutoff {
					f.Violate(Violation{"C04", "no-bounce", "expired-marker-recreated",
						fmt.Sprintf("%s: %s re-created the deletion marker %s/%q %s although it is older than the sweeper retention (%s before %d)", n.Name, actor.Task.ID, dbi, k, nv, m.Retention, actor.At.UnixNano())})
					return
				}
				f.Sim.Probe("c04-marker-created-from-snapshot")
			}
		}
	}
}

func (m *MonC04) AtEnd(f *Fleet) {
	if m.SweeperOn {
		return
	}
	if why := f.Premise(); why != "" {
		f.Sim.Probe("c04-premise-not-reached")
		return
	}
	// deletions that win are absent from every application view
	for _, n := range f.Nodes {
		content, _ := f.state[n].LogicalContent(n.Native)
		for _, dbi := range sortedKeys(f.Versions) {
			for _, k := range sortedKeys(f.Versions[dbi]) {
				if f.ShadowTaint[dbi+"/"+k] || f.Tainted[dbi+"/"+k] {
					continue
				}
				var max uint64
				for v := range f.Versions[dbi][k] {
					if v.TS > max {
						max = v.TS
					}
				}
				delWins, liveWins := false, false
				for v := range f.Versions[dbi][k] {
					if v.TS == max {
						if v.Deleted {
							delWins = true
						} else {
							liveWins = true
						}
					}
				}
				if !delWins || liveWins {
					continue
				}
				got, ok := content[dbi][k]
				if !ok || !got.Deleted {
					f.Violate(Violation{"C04", "deletion-propagates", "deleted-key-alive",
						fmt.Sprintf("%s: %s/%q was deleted at ts %d (newest version anywhere) but the instance holds %v present=%v", n.Name, dbi, k, max, got, ok)})
					return
				}
				if !n.Native {
					if d, has := f.state[n].AppDBIs()[dbi]; has {
						if _, present := d.Map()[k]; present {
							f.Violate(Violation{"C04", "deletion-propagates", "deleted-key-visible",
								fmt.Sprintf("%s: %s/%q was deleted at ts %d but is present in the application's DBI", n.Name, dbi, k, max)})
							return
						}
					}
				}
			}
		}
	}
}

// ---------------------------------------------------------------------------
// C05: published data is never lost from the bucket.
// ---------------------------------------------------------------------------

type MonC05 struct {
	BaseMonitor
	cache    map[string]Logical // decoded snapshots by name (nil = undecodable)
	J        map[string]map[string]uint64
	Checked  int
	ownSeen  map[*Node]map[int]bool // inc -> own snapshot in initial listing
	ownNames map[*Node]map[int][]string
	ownMerge map[*Node]map[int]bool // inc -> own snapshot merged
	failRun  map[string]int         // node/name -> consecutive failed stores
	gaveUp   map[*Node]map[int]bool
}

func (m *MonC05) init() {
	if m.cache == nil {
		m.cache = map[string]Logical{}
		m.J = map[string]map[string]uint64{}
		m.ownSeen = map[*Node]map[int]bool{}
		m.ownNames = map[*Node]map[int][]string{}
		m.ownMerge = map[*Node]map[int]bool{}
		m.failRun = map[string]int{}
		m.gaveUp = map[*Node]map[int]bool{}
	}
}

func (m *MonC05) join(f *Fleet) map[string]map[string]uint64 {
	j := map[string]map[string]uint64{}
	for _, name := range f.NewestDecodableByInstance(m.cache) {
		for dbi, mm := range m.cache[name] {
			if j[dbi] == nil {
				j[dbi] = map[string]uint64{}
			}
			for k, v := range mm {
				// ts+1 so that a version with timestamp 0 still counts as present
				if v.TS+1 > j[dbi][k] {
					j[dbi][k] = v.TS + 1
				}
			}
		}
	}
	return j
}

func (m *MonC05) BucketOp(f *Fleet, op *BucketOp) {
	m.init()
	n := f.NodeByName(op.Node)
	// own-snapshot gate bookkeeping
	if n != nil && op.Op == "list" && op.Err == "" && strings.HasPrefix(op.Task, n.Name+"/syncloop") {
		if m.ownSeen[n] == nil {
			m.ownSeen[n] = map[int]bool{}
		}
		if _, done := m.ownSeen[n][n.Inc]; !done {
			own := false
			if m.ownNames[n] == nil {
				m.ownNames[n] = map[int][]string{}
			}
			for _, name := range op.Names {
				if pn, ok := ParseSnapName(name); ok && pn.DB == DBName && pn.Instance == n.Name {
					own = true
					m.ownNames[n][n.Inc] = append(m.ownNames[n][n.Inc], name)
				}
			}
			m.ownSeen[n][n.Inc] = own
		}
	}
	if n != nil && op.Op == "store" {
		key := n.Name + "/" + op.Name
		if op.Err != "" && !op.Applied {
			m.failRun[key]++
			if m.failRun[key] >= f.Cfg.RetryCnt {
				if m.gaveUp[n] == nil {
					m.gaveUp[n] = map[int]bool{}
				}
				m.gaveUp[n][n.Inc] = true
			}
		} else {
			delete(m.failRun, key)
		}
		// explicit clause: nothing is uploaded before the own newest
		// snapshot has been merged
		if op.Applied && m.ownSeen[n][n.Inc] {
			merged := false
			for _, ev := range n.LoadedEvents() {
				if ev.Inc == n.Inc {
					if pn, ok := ParseSnapName(ev.Name); ok && pn.Instance == n.Name {
						merged = true
					}
				}
			}
			// ... unless the snapshots it saw at start-up have disappeared
			// in the meantime (cleaned as stale by another instance)
			stillThere := false
			for _, name := range m.ownNames[n][n.Inc] {
				if _, exists := f.Bucket.Get(name); exists && name != op.Name {
					stillThere = true
				}
			}
			if !merged && stillThere {
				f.Violate(Violation{"C05", "own-snapshot-first", "upload-before-own-merge",
					fmt.Sprintf("%s (incarnation %d) uploaded %s although its initial listing showed snapshots of its own name and it has not merged any of them yet", n.Name, n.Inc, op.Name)})
				return
			}
		}
	}
	if !(op.Applied && (op.Op == "store" || op.Op == "delete")) {
		return
	}
	if op.Op == "delete" {
		f.Sim.Probe("c05-delete-applied")
	}
	m.Checked++
	nj := m.join(f)
	for _, dbi := range sortedKeys(m.J) {
		for _, k := range sortedKeys(m.J[dbi]) {
			old := m.J[dbi][k]
			if nj[dbi][k] >= old {
				continue
			}
			if f.ShadowTaint[dbi+"/"+k] || f.Tainted[dbi+"/"+k] {
				continue
			}
			have := "no version at all"
			if nj[dbi][k] > 0 {
				have = fmt.Sprintf("ts %d", nj[dbi][k]-1)
			}
			sig := "data-lost-by-" + op.Op
			f.Violate(Violation{"C05", "join-monotone", sig,
				fmt.Sprintf("after %s %s %s the newest snapshots of all instances jointly hold %s for %s/%q; before they held ts %d", op.Task, op.Op, op.Name, have, dbi, k, old-1)})
			return
		}
	}
	m.J = nj
}

func (m *MonC05) AtEnd(f *Fleet) {
	m.init()
	// A Store that failed beyond the retry budget makes Sync return an error
	for n, incs := range m.gaveUp {
		for inc := range incs {
			ret, err := n.SyncReturned(inc)
			if !ret || err == nil {
				crashed := inc <= n.deadInc
				if crashed && !ret {
					continue // the incarnation was crashed by the simulator before it could return
				}
				f.Violate(Violation{"C05", "store-failure-is-fatal", "store-gave-up-silently",
					fmt.Sprintf("%s incarnation %d: an upload failed %d times in a row (the retry budget) but Sync did not return an error (returned=%v err=%v)", n.Name, inc, f.Cfg.RetryCnt, ret, err)})
				return
			}
		}
	}
}

// NewestDecodableByInstance returns, per instance, the name of its newest
// snapshot (last in name order). Undecodable blobs are skipped (C08).
func (f *Fleet) NewestDecodableByInstance(cache map[string]Logical) map[string]string {
	out := map[string]string{}
	for _, name := range f.Bucket.Names() {
		pn, ok := ParseSnapName(name)
		if !ok || pn.DB != DBName {
			continue
		}
		l, cached := cache[name]
		if !cached {
			data, _ := f.Bucket.Get(name)
			if ref, err := RefDecode(data); err == nil {
				l = RefLogical(ref)
			}
			cache[name] = l
		}
		if l == nil {
			continue
		}
		if cur, exists := out[pn.Instance]; !exists || name > cur {
			out[pn.Instance] = name
		}
	}
	return out
}

// ---------------------------------------------------------------------------
// C10: quiescence - no echo uploads, no write amplification.
// ---------------------------------------------------------------------------

type MonC10 struct {
	BaseMonitor
	Undecided string
	Decided   bool
	last      map[string]c10Upload // node -> its last successful upload
	Justified int
}

type c10Upload struct {
	inc  string
	txn  int64
	name string
}

// BucketOp: "an instance uploads only after a local application change, at
// start-up, or at the configured forced interval" - judged for every upload
// of the whole run. An upload is justified when it is the first one of its
// incarnation (start-up), the same snapshot stored again (a retry), or when
// the local application committed a transaction after the image of the
// previous upload and not after this one.
func (m *MonC10) BucketOp(f *Fleet, op *BucketOp) {
	if op.Op != "store" || !op.Applied || op.Node == "" {
		return
	}
	if f.Cfg.ForceInt > 0 || f.Cfg.Sweeper.Enabled {
		return
	}
	data, ok := f.Bucket.Get(op.Name)
	if !ok {
		return
	}
	ref, err := RefDecode(data)
	if err != nil {
		return // C07
	}
	inc := ""
	if i := strings.LastIndex(op.Task, "#"); i >= 0 {
		inc = op.Task[i:]
	}
	if m.last == nil {
		m.last = map[string]c10Upload{}
	}
	prev, had := m.last[op.Node]
	m.last[op.Node] = c10Upload{inc: inc, txn: ref.Meta.LmdbTxnID, name: op.Name}
	if !had || prev.inc != inc || prev.name == op.Name {
		return
	}
	for _, tx := range f.AppHistory {
		if tx.Node == op.Node && tx.Txn > prev.txn && tx.Txn <= ref.Meta.LmdbTxnID {
			m.Justified++
			return
		}
	}
	f.Violate(Violation{"C10", "no-echo", "upload-without-local-change",
		fmt.Sprintf("%s uploaded %s (image of LMDB transaction %d) although the local application committed nothing since its previous upload %s (transaction %d); no restart, no forced interval", op.Node, op.Name, ref.Meta.LmdbTxnID, prev.name, prev.txn)})
}

// RunQuiesce is the custom run of the fleet-quiesce profile.
func RunQuiesce(f *Fleet, m *MonC10) {
	f.RunWorkload()
	if f.Failed() {
		return
	}
	f.Drain(f.Cfg.DrainTime())
	if why := f.Premise(); why != "" {
		m.Undecided = why
		f.Sim.Probe("c10-premise-not-reached")
		return
	}
	m.Decided = true
	type snap struct {
		stores map[string]int
		txn    map[*Node]int64
	}
	take := func() snap {
		s := snap{stores: map[string]int{}, txn: map[*Node]int64{}}
		for _, op := range f.Bucket.Ops {
			if op.Op == "store" {
				s.stores[op.Node]++
			}
		}
		for _, n := range f.Nodes {
			s.txn[n] = LastTxnID(n.Env)
		}
		return s
	}
	// Phase Q: silence. Nothing may be uploaded or committed.
	q0 := take()
	quietStart := f.Sim.Now()
	f.Phase = "quiet"
	f.Drain(time.Duration(10+f.T.Choose("quiet-polls", 15)) * (f.Cfg.Poll + f.Cfg.StPoll))
	if f.Failed() {
		return
	}
	q1 := take()
	quietDur := f.Sim.Now() - quietStart
	for _, n := range f.Nodes {
		if fi := f.Cfg.ForceInt; fi > 0 {
			// forced snapshots are allowed, but only at the configured interval
			if got, max := q1.stores[n.Name]-q0.stores[n.Name], int(quietDur/fi)+1; got > max {
				f.Violate(Violation{"C10", "quiet-no-uploads", "more-uploads-than-forced-interval",
					fmt.Sprintf("%s uploaded %d snapshots in %s of silence; storage_force_snapshot_interval is %s", n.Name, got, quietDur, fi)})
				return
			}
			f.Sim.Probe("c10-forced-interval-checked")
		} else if q1.stores[n.Name] != q0.stores[n.Name] {
			f.Violate(Violation{"C10", "quiet-no-uploads", "upload-without-local-change",
				fmt.Sprintf("%s uploaded %d snapshot(s) during a phase without application writes, restarts or forced interval, after the fleet had converged", n.Name, q1.stores[n.Name]-q0.stores[n.Name])})
			return
		}
		if q1.txn[n] != q0.txn[n] {
			f.Violate(Violation{"C10", "quiet-no-commits", "commit-without-change",
				fmt.Sprintf("%s committed LMDB transactions %d..%d during a phase in which nothing changed anywhere", n.Name, q0.txn[n]+1, q1.txn[n])})
			return
		}
	}
	// Phase Q2: one instance restarts (LMDB kept). It uploads one start-up
	// snapshot that carries nothing new: the others merge it without
	// committing an LMDB transaction and without uploading.
	x := f.Nodes[f.T.Choose("quiet-restart", len(f.Nodes))]
	f.Sim.Logf("-- quiet phase 2: restart %s", x.Name)
	x.Crash()
	if err := x.Start(); err != nil {
		panic(err)
	}
	f.Phase = "quiet2"
	f.Drain(f.Cfg.DrainTime())
	if f.Failed() {
		return
	}
	q2 := take()
	for _, n := range f.Nodes {
		ds := q2.stores[n.Name] - q1.stores[n.Name]
		if f.Cfg.ForceInt > 0 {
			ds = 0 // uploads are governed by the forced interval (checked above)
		}
		if n == x {
			if ds > 1 {
				f.Violate(Violation{"C10", "restart-one-upload", "echo-upload-after-restart",
					fmt.Sprintf("%s uploaded %d snapshots after a restart with nothing new anywhere (one start-up snapshot is expected)", n.Name, ds)})
				return
			}
		} else if ds != 0 {
			f.Violate(Violation{"C10", "no-echo", "echo-upload",
				fmt.Sprintf("%s uploaded %d snapshot(s) after merging a snapshot that contained nothing new", n.Name, ds)})
			return
		}
		if q2.txn[n] != q1.txn[n] {
			f.Violate(Violation{"C10", "no-write-amplification", "commit-on-noop-merge",
				fmt.Sprintf("%s committed LMDB transactions %d..%d while merging snapshots that contain nothing newer than its own data", n.Name, q1.txn[n]+1, q2.txn[n])})
			return
		}
	}
	f.Sim.Probe("c10-both-quiet-phases-checked")
}
