package lssim

import (
	"os"
	"testing"
)

// TestSim is the single entry point of the simulator binary. The mode is
// selected by LSSIM_MODE; without it the test is skipped.
func TestSim(t *testing.T) {
	switch os.Getenv("LSSIM_MODE") {
	case "batch":
		WorkerBatch(t)
	case "replay":
		WorkerReplay(t)
	case "":
		t.Skip("LSSIM_MODE not set")
	default:
		t.Fatalf("unknown LSSIM_MODE %q", os.Getenv("LSSIM_MODE"))
	}
}
