package lssim

import (
	"encoding/binary"
)

// A tiny protobuf writer, independent of both codecs, used to produce every
// re-encoding of a snapshot message that a conforming encoder may emit
// (fields in any order, unknown fields of every wire type at every nesting
// level) as well as adversarial messages (C08).

type pbw struct{ b []byte }

func (w *pbw) varint(v uint64) {
	for v >= 0x80 {
		w.b = append(w.b, byte(v)|0x80)
		v >>= 7
	}
	w.b = append(w.b, byte(v))
}
func (w *pbw) tag(field int, wt int)       { w.varint(uint64(field)<<3 | uint64(wt)) }
func (w *pbw) fVarint(field int, v uint64) { w.tag(field, 0); w.varint(v) }
func (w *pbw) fBytes(field int, b []byte) {
	w.tag(field, 2)
	w.varint(uint64(len(b)))
	w.b = append(w.b, b...)
}
func (w *pbw) fFixed64(field int, v uint64) {
	w.tag(field, 1)
	w.b = binary.LittleEndian.AppendUint64(w.b, v)
}
func (w *pbw) fFixed32(field int, v uint32) {
	w.tag(field, 5)
	w.b = binary.LittleEndian.AppendUint32(w.b, v)
}

// WKV, WDBI, WSnap are the harness's model of snapshot content.
type WKV struct {
	Key, Val []byte
	TS       uint64
	Flags    uint32
}

type WDBI struct {
	Name      string
	Flags     uint64
	Transform string
	Entries   []WKV
}

type WMeta struct {
	GenerationID, InstanceID, Hostname, DatabaseName string
	LmdbTxnID, FromLmdbTxnID                         int64
	TimestampNano                                    uint64
}

type WSnap struct {
	FV, Compat uint32
	Meta       WMeta
	DBIs       []WDBI
}

// reenc draws how a message is re-encoded.
type reenc struct {
	t       *Tape
	permute bool
	unknown int // permille per position
}

func (r *reenc) order(n int) []int {
	idx := make([]int, n)
	for i := range idx {
		idx[i] = i
	}
	if r != nil && r.permute {
		for i := n - 1; i > 0; i-- {
			j := r.t.Choose("re-perm", i+1)
			idx[i], idx[j] = idx[j], idx[i]
		}
	}
	return idx
}

// junk maybe emits an unknown field (numbers 15..2000, every wire type a
// conforming encoder of a newer schema version may use).
func (r *reenc) junk(w *pbw) {
	if r == nil || r.unknown == 0 || !r.t.Chance("re-unknown", r.unknown) {
		return
	}
	field := []int{15, 16, 17, 100, 2000, 9}[r.t.Choose("re-unk-field", 6)]
	switch r.t.Choose("re-unk-wt", 4) {
	case 0:
		w.fVarint(field, []uint64{0, 1, 127, 128, 1 << 40, 1<<64 - 1}[r.t.Choose("re-unk-v", 6)])
	case 1:
		w.fFixed64(field, 0x1122334455667788)
	case 2:
		n := []int{0, 1, 3, 127, 128, 300}[r.t.Choose("re-unk-len", 6)]
		b := make([]byte, n)
		for i := range b {
			b[i] = byte(0x80 | i) // looks like unterminated varints if misparsed
		}
		w.fBytes(field, b)
	case 3:
		w.fFixed32(field, 0xdeadbeef)
	}
}

func (s *WSnap) Encode(r *reenc) []byte {
	var w pbw
	parts := []func(){
		func() {
			if s.FV != 0 {
				w.fVarint(1, uint64(s.FV))
			}
		},
		func() {
			if s.Compat != 0 {
				w.fVarint(4, uint64(s.Compat))
			}
		},
		func() { w.fBytes(2, s.Meta.encode(r)) },
	}
	for i := range s.DBIs {
		d := &s.DBIs[i]
		parts = append(parts, func() { w.fBytes(3, d.encode(r)) })
	}
	// The DBIs keep their relative order (it is semantically irrelevant but
	// makes comparison simple); only the position of the other fields moves.
	head := r.order(3)
	pos := 0
	if r != nil && r.permute {
		pos = r.t.Choose("re-head-pos", len(s.DBIs)+1)
	}
	for i := 0; i <= len(s.DBIs); i++ {
		if i == pos {
			for _, h := range head {
				r.junk(&w)
				parts[h]()
			}
		}
		if i < len(s.DBIs) {
			r.junk(&w)
			parts[3+i]()
		}
	}
	r.junk(&w)
	return w.b
}

func (m *WMeta) encode(r *reenc) []byte {
	var w pbw
	fs := []func(){
		func() {
			if m.GenerationID != "" {
				w.fBytes(1, []byte(m.GenerationID))
			}
		},
		func() {
			if m.InstanceID != "" {
				w.fBytes(2, []byte(m.InstanceID))
			}
		},
		func() {
			if m.Hostname != "" {
				w.fBytes(3, []byte(m.Hostname))
			}
		},
		func() {
			if m.LmdbTxnID != 0 {
				w.fVarint(4, uint64(m.LmdbTxnID))
			}
		},
		func() {
			if m.TimestampNano != 0 {
				w.fFixed64(5, m.TimestampNano)
			}
		},
		func() {
			if m.DatabaseName != "" {
				w.fBytes(7, []byte(m.DatabaseName))
			}
		},
		func() {
			if m.FromLmdbTxnID != 0 {
				w.fVarint(8, uint64(m.FromLmdbTxnID))
			}
		},
	}
	for _, i := range r.order(len(fs)) {
		r.junk(&w)
		fs[i]()
	}
	r.junk(&w)
	return w.b
}

func (d *WDBI) encode(r *reenc) []byte {
	var w pbw
	top := []func(){
		func() {
			if d.Name != "" {
				w.fBytes(1, []byte(d.Name))
			}
		},
		func() {
			if d.Flags != 0 {
				w.fVarint(3, d.Flags)
			}
		},
		func() {
			if d.Transform != "" {
				w.fBytes(4, []byte(d.Transform))
			}
		},
	}
	// top-level fields may come before, between or after the entries
	at := map[int][]int{}
	for _, i := range r.order(3) {
		p := 0
		if r != nil && r.permute {
			p = r.t.Choose("re-dbi-pos", len(d.Entries)+1)
		}
		at[p] = append(at[p], i)
	}
	for i := 0; i <= len(d.Entries); i++ {
		for _, f := range at[i] {
			r.junk(&w)
			top[f]()
		}
		if i < len(d.Entries) {
			r.junk(&w)
			w.fBytes(2, d.Entries[i].encode(r))
		}
	}
	r.junk(&w)
	return w.b
}

func (e *WKV) encode(r *reenc) []byte {
	var w pbw
	fs := []func(){
		func() {
			if len(e.Key) > 0 {
				w.fBytes(1, e.Key)
			}
		},
		func() {
			if len(e.Val) > 0 {
				w.fBytes(2, e.Val)
			}
		},
		func() {
			if e.TS != 0 {
				w.fFixed64(3, e.TS)
			}
		},
		func() {
			if e.Flags != 0 {
				w.fVarint(4, uint64(e.Flags))
			}
		},
	}
	for _, i := range r.order(len(fs)) {
		r.junk(&w)
		fs[i]()
	}
	r.junk(&w)
	return w.b
}
