package lssim

import (
	"bytes"
	"fmt"
	"io"
	"strings"

	"github.com/PowerDNS/lightningstream/snapshot"
)

// wire-sim (C07): version skew on the wire. A generated snapshot content
// travels (a) real writer -> reference reader, (b) real writer -> real
// reader, (c) "foreign peer" (independent writer with every legal
// re-encoding: field order, unknown fields of every wire type at every
// nesting level) -> real reader, which must see what the reference reader
// sees. Sizes cross the 1/2/3/4-byte length-varint boundaries.

func genWSnap(t *Tape) *WSnap {
	s := &WSnap{FV: uint32(1 + t.Choose("w-fv", 3)), Compat: uint32(t.Choose("w-compat", 4))}
	str := func(kind string) string {
		n := []int{0, 1, 5, 40, 127, 128, 330, 1200}[t.Weighted(kind, []int{3, 3, 10, 5, 2, 2, 2, 1})]
		return strings.Repeat("n", n)
	}
	s.Meta = WMeta{GenerationID: str("w-gen"), InstanceID: str("w-inst"), Hostname: str("w-host"), DatabaseName: str("w-db"),
		LmdbTxnID:     []int64{0, 1, 127, 128, 1 << 40, 1<<63 - 1}[t.Choose("w-txn", 6)],
		TimestampNano: []uint64{0, 1, 946684800000000000, 1 << 63, 1<<64 - 1}[t.Choose("w-mts", 5)],
		FromLmdbTxnID: []int64{0, 0, 5, 1 << 50}[t.Choose("w-from", 4)]}
	ndbi := []int{0, 1, 2, 4}[t.Weighted("w-ndbi", []int{1, 5, 3, 1})]
	sizes := []int{0, 1, 2, 100, 127, 128, 129, 256, 384, 511, 512, 1024, 16383, 16384, 16385, 32768, 70000, 2097151, 2097152}
	sizeW := []int{8, 10, 6, 6, 4, 4, 4, 3, 2, 3, 3, 2, 2, 2, 2, 1, 1, 1, 1}
	for i := 0; i < ndbi; i++ {
		d := WDBI{Name: fmt.Sprintf("dbi%d", i)}
		switch t.Choose("w-name", 5) {
		case 1:
			d.Name = strings.Repeat("N", 511)
		case 2:
			d.Name = strings.Repeat("x", 127+t.Choose("w-name-b", 3))
		case 3:
			d.Name = "_sync_shadow_x"
		}
		d.Flags = []uint64{0, 0, 0x08, 0x04, 0x40000, 1<<64 - 1, 127, 128}[t.Choose("w-flags", 8)]
		d.Transform = []string{"", "", "dupsort_hack_v1", "future_transform_v9", strings.Repeat("t", 200)}[t.Choose("w-transform", 5)]
		nent := []int{0, 1, 3, 40, 1200}[t.Weighted("w-nent", []int{2, 4, 6, 3, 1})]
		for j := 0; j < nent; j++ {
			kl := 1 + []int{0, 1, 7, 126, 127, 128, 510}[t.Weighted("w-klen", []int{4, 4, 8, 2, 2, 2, 2})]
			key := bytes.Repeat([]byte{byte('a' + j%26)}, kl)
			copy(key, fmt.Sprintf("%06d", j))
			if t.Chance("w-kbin", 200) {
				key[len(key)-1] = []byte{0x00, 0xff, 0x80}[t.Choose("w-kbin-b", 3)]
			}
			vl := sizes[t.Weighted("w-vlen", sizeW)]
			if nent >= 40 && vl > 20000 {
				vl = 300
			}
			val := bytes.Repeat([]byte{byte('A' + j%26)}, vl)
			e := WKV{Key: key, Val: val,
				TS:    []uint64{0, 1, 946684800000000000, 1 << 63, 1<<64 - 1}[t.Weighted("w-ts", []int{2, 2, 8, 1, 1})],
				Flags: []uint32{0, 0, 1, 2, 3, 128, 1<<32 - 1}[t.Choose("w-eflags", 7)]}
			d.Entries = append(d.Entries, e)
		}
		s.DBIs = append(s.DBIs, d)
	}
	// Buffer growth steps of the streaming encoder (first step 10 MB, then
	// doubling): rarely, one DBI gets entries that cross them.
	if t.Chance("w-huge", 25) {
		d := WDBI{Name: "huge"}
		switch t.Choose("w-huge-kind", 3) {
		case 0: // one value larger than the first step
			d.Entries = append(d.Entries, WKV{Key: []byte("small"), Val: []byte("v"), TS: 1})
			d.Entries = append(d.Entries, WKV{Key: []byte("zbig"), Val: bytes.Repeat([]byte("H"), 10*1024*1024+12345), TS: 2})
		case 1: // fill most of the first step, then an entry larger than the room left after doubling
			d.Entries = append(d.Entries, WKV{Key: []byte("a"), Val: bytes.Repeat([]byte("a"), 9*1024*1024+512*1024), TS: 1})
			d.Entries = append(d.Entries, WKV{Key: []byte("b"), Val: bytes.Repeat([]byte("b"), 10*1024*1024+768*1024), TS: 2})
		case 2: // many medium entries across two steps
			for j := 0; j < 24; j++ {
				d.Entries = append(d.Entries, WKV{Key: []byte(fmt.Sprintf("m%02d", j)), Val: bytes.Repeat([]byte{byte('a' + j)}, 1024*1024-j), TS: uint64(j + 1)})
			}
		}
		s.DBIs = append(s.DBIs, d)
	}
	return s
}

func (s *WSnap) shape() string {
	var sb strings.Builder
	fmt.Fprintf(&sb, "fv=%d compat=%d meta(%d,%d,%d,%d) ", s.FV, s.Compat, len(s.Meta.GenerationID), len(s.Meta.InstanceID), len(s.Meta.Hostname), len(s.Meta.DatabaseName))
	for _, d := range s.DBIs {
		fmt.Fprintf(&sb, "[name=%d flags=%#x tr=%d:", len(d.Name), d.Flags, len(d.Transform))
		for i, e := range d.Entries {
			if i < 6 {
				fmt.Fprintf(&sb, " k%d/v%d/ts%d/f%d", len(e.Key), len(e.Val), e.TS, e.Flags)
			}
		}
		fmt.Fprintf(&sb, " n=%d] ", len(d.Entries))
	}
	return sb.String()
}

// fromReal reads a decoded real snapshot through its public iteration API.
func fromReal(s *snapshot.Snapshot) (*WSnap, error) {
	out := &WSnap{FV: s.FormatVersion, Compat: s.CompatVersion}
	out.Meta = WMeta{GenerationID: s.Meta.GenerationID, InstanceID: s.Meta.InstanceID, Hostname: s.Meta.Hostname,
		DatabaseName: s.Meta.DatabaseName, LmdbTxnID: s.Meta.LmdbTxnID, FromLmdbTxnID: s.Meta.FromLmdbTxnID, TimestampNano: s.Meta.TimestampNano}
	for _, d := range s.Databases {
		wd := WDBI{Name: d.Name(), Flags: d.Flags(), Transform: d.Transform()}
		d.ResetCursor()
		for {
			kv, err := d.Next()
			if err == io.EOF {
				break
			}
			if err != nil {
				return nil, fmt.Errorf("dbi %q: %w", d.Name(), err)
			}
			wd.Entries = append(wd.Entries, WKV{Key: append([]byte(nil), kv.Key...), Val: append([]byte(nil), kv.Value...), TS: kv.TimestampNano, Flags: kv.Flags})
		}
		out.DBIs = append(out.DBIs, wd)
	}
	return out, nil
}

func fromRef(s *RefSnapshot) *WSnap {
	out := &WSnap{FV: s.FormatVersion, Compat: s.CompatVersion}
	out.Meta = WMeta{GenerationID: s.Meta.GenerationID, InstanceID: s.Meta.InstanceID, Hostname: s.Meta.Hostname,
		DatabaseName: s.Meta.DatabaseName, LmdbTxnID: s.Meta.LmdbTxnID, FromLmdbTxnID: s.Meta.FromLmdbTxnID, TimestampNano: s.Meta.TimestampNano}
	for _, d := range s.Databases {
		wd := WDBI{Name: d.Name, Flags: d.Flags, Transform: d.Transform}
		for _, e := range d.Entries {
			wd.Entries = append(wd.Entries, WKV{Key: e.Key, Val: e.Value, TS: e.TimestampNano, Flags: e.Flags})
		}
		out.DBIs = append(out.DBIs, wd)
	}
	return out
}

// diffW returns the first difference between two contents ("" if none).
func diffW(a, b *WSnap) string {
	if a.FV != b.FV || a.Compat != b.Compat {
		return fmt.Sprintf("versions %d/%d vs %d/%d", a.FV, a.Compat, b.FV, b.Compat)
	}
	if a.Meta != b.Meta {
		return fmt.Sprintf("meta differs: lengths (%d,%d,%d,%d) txn=%d from=%d ts=%d vs (%d,%d,%d,%d) txn=%d from=%d ts=%d",
			len(a.Meta.GenerationID), len(a.Meta.InstanceID), len(a.Meta.Hostname), len(a.Meta.DatabaseName), a.Meta.LmdbTxnID, a.Meta.FromLmdbTxnID, a.Meta.TimestampNano,
			len(b.Meta.GenerationID), len(b.Meta.InstanceID), len(b.Meta.Hostname), len(b.Meta.DatabaseName), b.Meta.LmdbTxnID, b.Meta.FromLmdbTxnID, b.Meta.TimestampNano)
	}
	if len(a.DBIs) != len(b.DBIs) {
		return fmt.Sprintf("%d DBIs vs %d", len(a.DBIs), len(b.DBIs))
	}
	for i := range a.DBIs {
		x, y := a.DBIs[i], b.DBIs[i]
		if x.Name != y.Name || x.Flags != y.Flags || x.Transform != y.Transform {
			return fmt.Sprintf("DBI %d: name len %d flags %#x transform %q vs name len %d flags %#x transform %q", i, len(x.Name), x.Flags, x.Transform, len(y.Name), y.Flags, y.Transform)
		}
		if len(x.Entries) != len(y.Entries) {
			return fmt.Sprintf("DBI %d: %d entries vs %d", i, len(x.Entries), len(y.Entries))
		}
		for j := range x.Entries {
			p, q := x.Entries[j], y.Entries[j]
			if !bytes.Equal(p.Key, q.Key) || !bytes.Equal(p.Val, q.Val) || p.TS != q.TS || p.Flags != q.Flags {
				return fmt.Sprintf("DBI %d entry %d: key %d bytes val %d bytes ts %d flags %d vs key %d bytes val %d bytes ts %d flags %d (key equal=%v val equal=%v)",
					i, j, len(p.Key), len(p.Val), p.TS, p.Flags, len(q.Key), len(q.Val), q.TS, q.Flags, bytes.Equal(p.Key, q.Key), bytes.Equal(p.Val, q.Val))
			}
		}
	}
	return ""
}

func runWireSim(env *RunEnv) {
	sim, t := env.Sim, env.Tape
	var viol []Violation
	violate := func(o, sig, msg string) {
		if len(viol) == 0 {
			viol = append(viol, Violation{"C07", o, sig, msg})
			sim.Logf("VIOLATION C07/%s [%s]: %s", o, sig, msg)
		}
	}
	model := genWSnap(t)
	sim.Logf("cfg wire-sim %s", model.shape())

	// (a)+(b): the real writer
	real := &snapshot.Snapshot{FormatVersion: model.FV, CompatVersion: model.Compat}
	real.Meta.GenerationID, real.Meta.InstanceID, real.Meta.Hostname = model.Meta.GenerationID, model.Meta.InstanceID, model.Meta.Hostname
	real.Meta.DatabaseName, real.Meta.LmdbTxnID, real.Meta.FromLmdbTxnID, real.Meta.TimestampNano = model.Meta.DatabaseName, model.Meta.LmdbTxnID, model.Meta.FromLmdbTxnID, model.Meta.TimestampNano
	for _, d := range model.DBIs {
		var rd *snapshot.DBI
		if t.Choose("w-prealloc", 2) == 0 {
			rd = snapshot.NewDBI()
		} else {
			rd = snapshot.NewDBISize(t.Choose("w-prealloc-size", 5000))
		}
		rd.SetName(d.Name)
		rd.SetFlags(d.Flags)
		rd.SetTransform(d.Transform)
		for _, e := range d.Entries {
			rd.Append(snapshot.KV{Key: e.Key, Value: e.Val, TimestampNano: e.TS, Flags: e.Flags})
		}
		real.Databases = append(real.Databases, rd)
	}
	blob, _, err := snapshot.DumpData(real)
	if err != nil {
		violate("encode", "encode-error", "encoding failed: "+err.Error())
	}
	// an empty DBI without any field set produces no bytes and legitimately
	// vanishes; our DBIs always have a name, so they must all survive.
	if len(viol) == 0 {
		ref, err := RefDecode(blob)
		if err != nil {
			violate("real-to-standard", "not-valid-protobuf", fmt.Sprintf("the bytes written for %s are not a valid message of the published schema: %v", model.shape(), err))
		} else if d := diffW(model, fromRef(ref)); d != "" {
			violate("real-to-standard", "standard-decoder-sees-other-content", fmt.Sprintf("a standard decoder reads other content than was encoded (%s): %s", model.shape(), d))
		}
	}
	if len(viol) == 0 {
		back, err := snapshot.LoadData(blob)
		if err != nil {
			violate("roundtrip", "own-encoding-rejected", fmt.Sprintf("decoding the own encoding of %s failed: %v", model.shape(), err))
		} else if got, err := fromReal(back); err != nil {
			violate("roundtrip", "own-encoding-rejected", fmt.Sprintf("iterating the own encoding of %s failed: %v", model.shape(), err))
		} else if d := diffW(model, got); d != "" {
			violate("roundtrip", "roundtrip-differs", fmt.Sprintf("encode+decode of %s returns other content: %s", model.shape(), d))
		}
	}
	// (c): foreign peer with legal re-encodings
	for i := 0; i < 3 && len(viol) == 0; i++ {
		r := &reenc{t: t, permute: t.Choose("re-permute", 2) == 1, unknown: pick(t, "re-unknown-rate", 0, 150, 500)}
		if i == 0 {
			r = nil // canonical order, no unknown fields
		}
		pb := model.Encode(r)
		var refSnap RefSnapshot
		if err := refSnap.Unmarshal(pb); err != nil {
			env.Res.HarnessErr = "harness encoder produced an invalid message: " + err.Error()
			return
		}
		want := fromRef(&refSnap)
		desc := fmt.Sprintf("%s re-encoded (permute=%v unknown=%v)", model.shape(), r != nil && r.permute, r != nil && r.unknown > 0)
		got, err := snapshot.LoadData(GzipBytes(pb))
		if err != nil {
			violate("standard-to-real", "valid-message-rejected", fmt.Sprintf("a valid message was rejected: %s: %v", desc, err))
			break
		}
		gw, err := fromReal(got)
		if err != nil {
			violate("standard-to-real", "valid-message-rejected", fmt.Sprintf("a valid message was rejected while iterating: %s: %v", desc, err))
			break
		}
		if d := diffW(want, gw); d != "" {
			violate("standard-to-real", "decodes-differently", fmt.Sprintf("a valid message decodes differently from a standard decoder: %s: %s", desc, d))
		}
	}
	env.Res.Violations = viol
	n := 0
	for _, d := range model.DBIs {
		n += len(d.Entries)
	}
	env.Res.Counts = map[string]int{"dbis": len(model.DBIs), "entries": n}
	env.Res.Nontrivial = n > 0
}

func init() {
	RegisterProfile(&Profile{Name: "wire-sim", Property: "C07", Run: runWireSim})
}
