package lssim

import (
	"fmt"
	"sort"
	"strings"

	"github.com/PowerDNS/lightningstream/lmdbenv"
	"github.com/PowerDNS/lightningstream/lmdbenv/header"
	"github.com/PowerDNS/lightningstream/lmdbenv/strategy"
	"github.com/PowerDNS/lightningstream/snapshot"
	"github.com/PowerDNS/lightningstream/snapshot/gogosnapshot"
	"github.com/PowerDNS/lightningstream/syncer"
	"github.com/PowerDNS/lmdb-go/lmdb"
	"github.com/c2h5oh/datasize"
)

// merge-delivery: a delivery simulation for C02. A pool of versions of a few
// keys is delivered to 2-3 replicas (real LMDB DBIs, real strategy.Update +
// NativeIterator) in independently drawn orders, with duplicates, and in
// pre-merged groups (a sub-pool is merged on a scratch replica and its dump
// delivered as one message, in any format version that can express it).

type poolVersion struct {
	Key     string
	TS      uint64
	Deleted bool
	Val     string
}

func (p poolVersion) logical(fv uint32) Version {
	v := Version{TS: p.TS, Deleted: p.Deleted, Val: p.Val}
	if fv < 2 && p.Val == "" {
		v.Deleted = true // version 1: an empty value denotes a deletion
	}
	if v.Deleted {
		v.Val = ""
	}
	return v
}

type delivery struct {
	FV       uint32
	Entries  []poolVersion
	DefaultT uint64 // shadow-capture use: entries carry no timestamp
}

func (d delivery) String() string {
	var sb strings.Builder
	fmt.Fprintf(&sb, "fv%d", d.FV)
	if d.DefaultT != 0 {
		fmt.Fprintf(&sb, " default-ts=%d", d.DefaultT)
	}
	for _, e := range d.Entries {
		fmt.Fprintf(&sb, " %s@%d", e.Key, e.TS)
		if e.Deleted {
			sb.WriteString("DEL")
		}
		fmt.Fprintf(&sb, "=%q", e.Val)
	}
	return sb.String()
}

// toDBI encodes the delivery with the reference codec and hands the bytes to
// the real decoder, exactly as a downloaded snapshot would arrive.
func (d delivery) toDBI() (*snapshot.DBI, error) {
	es := append([]poolVersion(nil), d.Entries...)
	sort.SliceStable(es, func(i, j int) bool { return es[i].Key < es[j].Key })
	g := &gogosnapshot.DBI{Name: "r"}
	for _, e := range es {
		kv := gogosnapshot.KV{Key: []byte(e.Key), Value: []byte(e.Val), TimestampNano: e.TS}
		if e.Deleted && d.FV >= 2 {
			kv.Flags = 1
			kv.Value = nil
		}
		if e.Deleted && d.FV < 2 {
			kv.Value = nil
		}
		if d.DefaultT != 0 {
			kv.TimestampNano = 0
		}
		g.Entries = append(g.Entries, kv)
	}
	b, err := g.Marshal()
	if err != nil {
		return nil, err
	}
	return snapshot.NewDBIFromData(b)
}

func runMergeSim(env *RunEnv) {
	sim, t := env.Sim, env.Tape
	e, err := lmdbenv.NewWithOptions(env.Root+"/merge", lmdbenv.Options{Create: true, MapSize: 64 * datasize.MB, EnvFlags: lmdb.NoSync | lmdb.NoMetaSync})
	if err != nil {
		env.Res.HarnessErr = err.Error()
		return
	}
	defer e.Close()
	var viol []Violation
	violate := func(o, sig, msg string) {
		if len(viol) == 0 {
			viol = append(viol, Violation{"C02", o, sig, msg})
			sim.Logf("VIOLATION C02/%s [%s]: %s", o, sig, msg)
		}
	}

	nrep := 2 + t.Choose("mg-nrep", 2)
	cutoff := pick(t, "mg-cutoff", uint64(0), 7, 15) // stale-deletion cutoff, same on all replicas
	captureMode := t.Choose("mg-capture", 5) == 4    // shadow-capture use (default timestamp)
	tsLat := []uint64{10, 5, 20, 10, 0, 15}
	vals := []string{"a", "b", "", "a\x00", "aa"}
	keys := []string{"k", "k2"}[:1+t.Choose("mg-nkeys", 2)]
	npool := 2 + t.Choose("mg-npool", 4)
	var pool []poolVersion
	for i := 0; i < npool; i++ {
		p := poolVersion{Key: keys[t.Choose("mg-key", len(keys))], TS: tsLat[t.Choose("mg-ts", len(tsLat))]}
		if t.Chance("mg-del", 350) {
			p.Deleted = true
		} else {
			p.Val = vals[t.Choose("mg-val", len(vals))]
		}
		pool = append(pool, p)
	}
	sim.Logf("cfg merge-delivery replicas=%d cutoff=%d capture=%v pool=%v", nrep, cutoff, captureMode, pool)

	read := func(dbiName string) (map[string]Entry, int64) {
		out := map[string]Entry{}
		var last int64
		_ = e.View(func(txn *lmdb.Txn) error {
			last = int64(txn.ID())
			dbi, err := txn.OpenDBI(dbiName, 0)
			if err != nil {
				return nil
			}
			c, _ := txn.OpenCursor(dbi)
			defer c.Close()
			for {
				k, v, err := c.Get(nil, nil, lmdb.Next)
				if err != nil {
					break
				}
				h, app, perr := ParseHdr(v)
				en := Entry{Raw: v, Hdr: h, App: app}
				if perr != nil {
					en.HdrErr = perr.Error()
				}
				out[string(k)] = en
			}
			return nil
		})
		return out, last
	}
	replaced := map[Version]map[Version]bool{}
	created := map[string]bool{}
	deliver := func(rep string, d delivery) {
		if !created[rep] {
			// creating the DBI is a write of its own; do it beforehand
			_ = e.Update(func(txn *lmdb.Txn) error { _, err := txn.OpenDBI(rep, lmdb.Create); return err })
			created[rep] = true
		}
		before, _ := read(rep)
		lastBefore := LastTxnID(e)
		err := e.Update(func(txn *lmdb.Txn) error {
			dbi, err := txn.OpenDBI(rep, lmdb.Create)
			if err != nil {
				return err
			}
			msg, err := d.toDBI()
			if err != nil {
				return err
			}
			it, err := syncer.NewNativeIterator(d.FV, 1, msg, header.Timestamp(d.DefaultT), header.TxnID(txn.ID()), header.Timestamp(cutoff))
			if err != nil {
				return err
			}
			return strategy.Update(txn, dbi, it)
		})
		if err != nil {
			violate("merge-succeeds", "merge-error", fmt.Sprintf("replica %s: delivery %s failed: %v", rep, d, err))
			return
		}
		after, _ := read(rep)
		lastAfter := LastTxnID(e)
		changed := false
		for k, a := range after {
			if a.HdrErr != "" {
				violate("well-formed", "bad-header", fmt.Sprintf("replica %s key %q: %s", rep, k, a.HdrErr))
				return
			}
			b, had := before[k]
			if !had {
				changed = true
				continue
			}
			bv, av := b.Version(), a.Version()
			if bv == av {
				if !eqBytes(b.Raw, a.Raw) {
					violate("kept-untouched", "bytes-rewritten", fmt.Sprintf("replica %s key %q: delivery %s did not win over %s, yet the stored bytes changed from %x to %x", rep, k, d, bv, b.Raw, a.Raw))
					return
				}
				continue
			}
			changed = true
			if av.TS < bv.TS {
				violate("never-backwards", "replaced-by-older", fmt.Sprintf("replica %s key %q: delivery %s replaced %s by the older %s", rep, k, d, bv, av))
				return
			}
			if av.TS == bv.TS {
				if replaced[av][bv] {
					violate("never-backwards", "tie-break-both-ways", fmt.Sprintf("replica %s key %q: %s replaced by %s at equal timestamp; the opposite replacement happened before in this run", rep, k, bv, av))
					return
				}
				if replaced[bv] == nil {
					replaced[bv] = map[Version]bool{}
				}
				replaced[bv][av] = true
				sim.Probe("c02-equal-ts-replacement")
			}
		}
		for k := range before {
			if _, still := after[k]; !still {
				violate("never-backwards", "key-removed", fmt.Sprintf("replica %s key %q removed by delivery %s", rep, k, d))
				return
			}
		}
		if !changed && lastAfter != lastBefore {
			violate("kept-untouched", "noop-merge-committed", fmt.Sprintf("replica %s: delivery %s changed nothing but committed LMDB transaction %d", rep, d, lastAfter))
		}
		sim.Logf("  deliver %s <- %s => %v", rep, d, summarize(after))
	}

	if captureMode {
		// Shadow-capture use: successive captures of the application's
		// value with increasing default timestamps; check monotonicity only.
		tcap := uint64(100)
		for i := 0; i < npool+2 && len(viol) == 0; i++ {
			p := pool[t.Choose("mg-cap-pick", len(pool))]
			if p.Deleted {
				continue
			}
			tcap += uint64(1 + t.Choose("mg-cap-dt", 5))
			deliver("r0", delivery{FV: 3, Entries: []poolVersion{{Key: p.Key, Val: p.Val}}, DefaultT: tcap})
		}
		env.Res.Violations = viol
		env.Res.Nontrivial = true
		return
	}

	// Each replica receives the same set in its own order and grouping.
	type plan struct{ ds []delivery }
	fvFor := func(es []poolVersion) uint32 {
		// version 1 cannot express a live empty value
		for _, e := range es {
			if !e.Deleted && e.Val == "" {
				return uint32(2 + t.Choose("mg-fv23", 2))
			}
		}
		return uint32(1 + t.Choose("mg-fv", 3))
	}
	groups := 0
	for r := 0; r < nrep && len(viol) == 0; r++ {
		rep := fmt.Sprintf("r%d", r)
		order := append([]poolVersion(nil), pool...)
		for i := len(order) - 1; i > 0; i-- {
			j := t.Choose("mg-shuffle", i+1)
			order[i], order[j] = order[j], order[i]
		}
		for len(order) > 0 && len(viol) == 0 {
			n := 1
			if len(order) > 1 && t.Chance("mg-group", 300) {
				n = 2 + t.Choose("mg-group-n", len(order)-1)
			}
			sub := order[:n]
			order = order[n:]
			if n == 1 {
				d := delivery{FV: fvFor(sub), Entries: sub}
				deliver(rep, d)
				if t.Chance("mg-dup", 300) && len(viol) == 0 {
					deliver(rep, d) // duplicate delivery
				}
				continue
			}
			// pre-merge the group on a scratch replica, deliver its dump
			groups++
			scratch := fmt.Sprintf("s%d_%d", r, groups)
			for _, p := range sub {
				deliver(scratch, delivery{FV: fvFor([]poolVersion{p}), Entries: []poolVersion{p}})
			}
			st, _ := read(scratch)
			var merged []poolVersion
			for k, en := range st {
				v := en.Version()
				merged = append(merged, poolVersion{Key: k, TS: v.TS, Deleted: v.Deleted, Val: v.Val})
			}
			sort.Slice(merged, func(i, j int) bool { return merged[i].Key < merged[j].Key })
			if len(merged) > 0 {
				deliver(rep, delivery{FV: fvFor(merged), Entries: merged})
			}
		}
		// late duplicates of arbitrary pool members
		for i := 0; i < t.Choose("mg-late", 3) && len(viol) == 0; i++ {
			p := pool[t.Choose("mg-late-pick", len(pool))]
			deliver(rep, delivery{FV: fvFor([]poolVersion{p}), Entries: []poolVersion{p}})
		}
	}
	staleInPool := false
	for _, p := range pool {
		if p.logical(3).Deleted && p.TS < cutoff {
			staleInPool = true // the cutoff rule makes the outcome depend on presence by design
		}
	}
	if len(viol) == 0 && !staleInPool {
		ref, _ := read("r0")
		for r := 1; r < nrep; r++ {
			got, _ := read(fmt.Sprintf("r%d", r))
			ks := map[string]bool{}
			for k := range ref {
				ks[k] = true
			}
			for k := range got {
				ks[k] = true
			}
			for _, k := range sortedKeys(ks) {
				a, aok := ref[k]
				b, bok := got[k]
				if aok != bok || a.Version() != b.Version() {
					as, bs := "absent", "absent"
					if aok {
						as = a.Version().String()
					}
					if bok {
						bs = b.Version().String()
					}
					sig := "order-dependent-result"
					if aok && bok && a.Version().TS == b.Version().TS {
						sig = "order-dependent-tie"
					}
					violate("join", sig, fmt.Sprintf("replicas r0 and r%d received the same set of versions %v in different orders/groupings but hold %s vs %s for key %q", r, pool, as, bs, k))
				}
			}
		}
	}
	env.Res.Violations = viol
	env.Res.Counts = map[string]int{"pool": len(pool), "groups": groups}
	env.Res.Nontrivial = len(pool) >= 2
}

func summarize(m map[string]Entry) string {
	var ks []string
	for k := range m {
		ks = append(ks, k)
	}
	sort.Strings(ks)
	var sb strings.Builder
	for _, k := range ks {
		fmt.Fprintf(&sb, "%s:%s ", k, m[k].Version())
	}
	return sb.String()
}

func init() {
	RegisterProfile(&Profile{Name: "merge-delivery", Property: "C02", Run: runMergeSim})
}
