package lssim

import (
	"bytes"
	"encoding/binary"
	"fmt"
	"io"
	"runtime"
	"runtime/debug"
	"strings"
	"time"

	"github.com/PowerDNS/lightningstream/snapshot"
)

// hostile-sim (C08, component): arbitrary and adversarial blobs are handed to
// the real decoder the way a downloader does (LoadData, then full iteration
// of every DBI as a merge would). A panic is caught on the spot and reported
// with the decoder frame; the fleet profile (fleet-hostile) checks the other
// half: honest traffic keeps flowing.

func hostileBlob(t *Tape, valid []byte) (blob []byte, kind string) {
	switch t.Choose("h-kind", 8) {
	case 0:
		n := t.Choose("h-rand-n", 200)
		b := make([]byte, n)
		for i := range b {
			b[i] = byte(t.Choose("h-rand-b", 256))
		}
		return b, "random-bytes"
	case 1:
		if len(valid) < 2 {
			return valid, "valid"
		}
		return valid[:1+t.Choose("h-trunc", len(valid)-1)], "truncated"
	case 2:
		b := append([]byte(nil), valid...)
		for i := 0; i < 1+t.Choose("h-flips", 4); i++ {
			p := t.Choose("h-flip-pos", len(b))
			b[p] ^= 1 << t.Choose("h-flip-bit", 8)
		}
		return b, "bit-flipped"
	case 3:
		// valid gzip, flipped protobuf bytes
		pb, err := gunzip(valid)
		if err != nil || len(pb) == 0 {
			return valid, "valid"
		}
		for i := 0; i < 1+t.Choose("h-pbflips", 4); i++ {
			p := t.Choose("h-pbflip-pos", len(pb))
			pb[p] = byte(t.Choose("h-pbflip-val", 256))
		}
		return GzipBytes(pb), "gzip-ok-protobuf-flipped"
	case 4:
		return GzipBytes(bytes.Repeat([]byte{0}, 1<<uint(10+t.Choose("h-bomb", 12)))), "gzip-zeros"
	case 5:
		// a valid deflate stream whose gzip trailer (CRC32, ISIZE) lies:
		// the declared uncompressed size is under the sender's control
		b := append([]byte(nil), valid...)
		if len(b) < 12 {
			return valid, "valid"
		}
		// (up to 256 MiB: enough to show an allocation that follows the
		// declared size, without sixteen workers exhausting the machine)
		sizes := []uint32{0, 1, 1 << 20, 1 << 24, 1 << 26, 1 << 28}
		binary.LittleEndian.PutUint32(b[len(b)-4:], sizes[t.Choose("h-isize", len(sizes))])
		if t.Choose("h-crc", 2) == 1 {
			b[len(b)-8] ^= 0xff
		}
		return b, "gzip-forged-trailer"
	default:
		return GzipBytes(adversarialPB(t)), "adversarial-protobuf"
	}
}

// adversarialPB builds structurally plausible messages whose length and tag
// fields lie: lengths of 2^63..2^64-1, lengths past the end, nested lengths,
// wire types 3/4/6/7, overlong varints, huge field numbers.
func adversarialPB(t *Tape) []byte {
	hugeLens := []uint64{1 << 63, 1<<63 + 1, 1<<64 - 1, 1<<64 - 8, 1 << 62, 1 << 32, 1<<31 - 1, 1 << 40,
		// just below the sign bit: adding a small offset wraps a signed sum
		1<<63 - 1, 1<<63 - 2, 1<<63 - 8, 1<<63 - 16, 1<<63 - 64, 1<<62 + 1<<61, 1<<32 - 1, 1<<31 + 1}
	evil := func(w *pbw, field int) {
		switch t.Choose("h-evil", 7) {
		case 0: // length-delimited with a huge length
			w.tag(field, 2)
			w.varint(hugeLens[t.Choose("h-huge", len(hugeLens))])
			w.b = append(w.b, 1, 2, 3)
		case 1: // length past the end
			w.tag(field, 2)
			w.varint(uint64(5 + t.Choose("h-past", 300)))
			w.b = append(w.b, 7)
		case 2: // group / reserved wire types
			w.tag(field, []int{3, 4, 6, 7}[t.Choose("h-wt", 4)])
		case 3: // overlong varint
			w.tag(field, 0)
			w.b = append(w.b, 0xff, 0xff, 0xff, 0xff, 0xff, 0xff, 0xff, 0xff, 0xff, 0xff, 0x01)
		case 4: // huge field number
			w.varint(uint64(1<<29+t.Choose("h-fieldnum", 1000))<<3 | 2)
			w.varint(hugeLens[t.Choose("h-huge2", len(hugeLens))])
		case 5: // truncated fixed64
			w.tag(field, 1)
			w.b = append(w.b, 1, 2, 3)
		case 6: // unknown field with huge length (exercises skipping)
			w.tag(9+t.Choose("h-unkf", 5), 2)
			w.varint(hugeLens[t.Choose("h-huge3", len(hugeLens))])
		}
	}
	level := t.Choose("h-level", 4) // 0 snapshot, 1 meta, 2 dbi, 3 entry
	var kv pbw
	kv.fBytes(1, []byte("key"))
	if level == 3 {
		evil(&kv, []int{1, 2, 3, 4, 9}[t.Choose("h-kvf", 5)])
	}
	kv.fBytes(2, []byte("val"))
	var dbi pbw
	dbi.fBytes(1, []byte("d1"))
	if level == 2 {
		evil(&dbi, []int{1, 2, 3, 4, 9}[t.Choose("h-dbif", 5)])
	}
	dbi.fBytes(2, kv.b)
	if t.Chance("h-dbi-tail", 500) {
		dbi.fVarint(3, 0)
	}
	var meta pbw
	meta.fBytes(2, []byte("inst"))
	if level == 1 {
		evil(&meta, []int{1, 2, 4, 5, 9}[t.Choose("h-metaf", 5)])
	}
	var s pbw
	s.fVarint(1, 3)
	if level == 0 {
		evil(&s, []int{1, 2, 3, 4, 9}[t.Choose("h-snapf", 5)])
	}
	s.fBytes(2, meta.b)
	s.fBytes(3, dbi.b)
	return s.b
}

// decodeFully does what a downloader plus a merge do with a blob. It returns
// a description of a panic, if one happened.
func decodeFully(blob []byte) (ok bool, panicMsg string) {
	defer func() {
		if r := recover(); r != nil {
			st := string(debug.Stack())
			frame := ""
			for _, l := range strings.Split(st, "\n") {
				if strings.HasPrefix(l, "github.com/PowerDNS/lightningstream/") {
					frame = strings.TrimPrefix(l, "github.com/PowerDNS/lightningstream/")
					if i := strings.LastIndex(frame, "("); i > 0 {
						frame = frame[:i] // drop the argument list, keep "(*KV).Unmarshal"
					}
					if !strings.Contains(frame, "lssim") {
						break
					}
				}
			}
			panicMsg = fmt.Sprintf("%v @ %s", r, frame)
		}
	}()
	s, err := snapshot.LoadData(blob)
	if err != nil {
		return false, ""
	}
	for _, d := range s.Databases {
		d.ResetCursor()
		for i := 0; ; i++ {
			_, err := d.Next()
			if err == io.EOF {
				break
			}
			if err != nil {
				return false, ""
			}
			if i > len(blob)*1100+1000 {
				panic("hang: iteration does not terminate")
			}
		}
	}
	return true, ""
}

// Allocation bound for decoding one blob: factor x input + slack.
const (
	memFactor = 8000
	memSlack  = 8 << 20
)

var maxAllocRatio int

func runHostileSim(env *RunEnv) {
	sim, t := env.Sim, env.Tape
	var viol []Violation
	valid := validBlob("db", "peer", time.Now(), 1)
	n := 20 + t.Choose("h-n", 60)
	decoded, rejected := 0, 0
	for i := 0; i < n && len(viol) == 0; i++ {
		blob, kind := hostileBlob(t, valid)
		var m0, m1 runtime.MemStats
		runtime.ReadMemStats(&m0)
		ok, p := decodeFully(blob)
		runtime.ReadMemStats(&m1)
		// "in ... memory proportional to the input": deflate expands at
		// most 1032:1 and the decoder may copy while it grows its buffer;
		// everything allocated while decoding is counted.
		if alloc, limit := m1.TotalAlloc-m0.TotalAlloc, uint64(memFactor*len(blob)+memSlack); alloc > limit && p == "" {
			viol = append(viol, Violation{"C08", "memory-proportional", "allocation-not-proportional-to-input",
				// (the exact amount is not part of the message: it differs
				// by a few bytes from process to process)
				fmt.Sprintf("decoding a %s blob of %d bytes allocated more than %d bytes (%d x the input + %d)", kind, len(blob), limit, memFactor, memSlack)})
			sim.Logf("VIOLATION C08 %s", viol[0].Msg)
			break
		}
		if alloc := int(m1.TotalAlloc - m0.TotalAlloc); len(blob) > 0 && alloc/len(blob) > maxAllocRatio {
			maxAllocRatio = alloc / len(blob)
		}
		if p != "" {
			sig := "decoder-panic@" + p[strings.LastIndex(p, "@ ")+2:]
			viol = append(viol, Violation{"C08", "no-crash", sig, fmt.Sprintf("decoding a %s blob of %d bytes (%x...) panicked: %s", kind, len(blob), blob[:min(len(blob), 24)], p)})
			sim.Logf("VIOLATION C08 %s", viol[0].Msg)
			break
		}
		if ok {
			decoded++
		} else {
			rejected++
		}
		sim.Logf("  blob %d %s len=%d ok=%v", i, kind, len(blob), ok)
	}
	env.Res.Violations = viol
	env.Res.Counts = map[string]int{"blobs": n, "decoded": decoded, "rejected": rejected}
	sim.Probe(fmt.Sprintf("hostile-max-alloc-ratio<=%d", (maxAllocRatio/500+1)*500))
	env.Res.Nontrivial = rejected > 0
}

func init() {
	RegisterProfile(&Profile{Name: "hostile-sim", Property: "C08", Run: runHostileSim})
}
