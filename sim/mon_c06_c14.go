package lssim

import (
	"fmt"
	"strings"
	"time"

	"github.com/PowerDNS/lmdb-go/lmdb"
)

// ---------------------------------------------------------------------------
// C06: every uploaded snapshot is the complete image of one committed LMDB
// transaction of the uploader.
// ---------------------------------------------------------------------------

type MonC06 struct {
	BaseMonitor
	hist       map[*Node]map[int64]*NodeState
	lastTS     map[string]uint64 // instance -> timestamp of its last snapshot
	lastName   map[string]string
	Checked    int
	Prop       string // property to report under (C06, or C04 for the marker clause)
	Markers    bool   // only check deletion markers (C04 clause b)
	SkipRaced  bool   // do not evaluate snapshots that hit the known txn-id reuse race
	unobserved map[string]bool
}

func (m *MonC06) prop() string {
	if m.Prop != "" {
		return m.Prop
	}
	return "C06"
}

func (m *MonC06) init(f *Fleet) {
	if m.hist == nil {
		m.hist = map[*Node]map[int64]*NodeState{}
		m.lastTS = map[string]uint64{}
		m.lastName = map[string]string{}
		for _, n := range f.Nodes {
			m.hist[n] = map[int64]*NodeState{f.state[n].LastTxnID: f.state[n]}
		}
	}
}

func (m *MonC06) NodeChanged(f *Fleet, n *Node, before, after *NodeState, actor Actor) {
	m.init(f)
	m.hist[n][after.LastTxnID] = after
	if before != nil {
		// several commits in one step (the sweeper commits once per DBI):
		// the states in between were not observed
		for id := before.LastTxnID + 1; id < after.LastTxnID; id++ {
			if m.unobserved == nil {
				m.unobserved = map[string]bool{}
			}
			m.unobserved[fmt.Sprintf("%s/%d", n.Name, id)] = true
		}
	}
}

func (m *MonC06) StepDone(f *Fleet, actor Actor) {
	m.init(f)
	if actor.Kind == "harness" && actor.Node != nil {
		st := f.state[actor.Node]
		if st != nil && st.LastTxnID == 0 {
			// LMDB replaced by an empty one
			m.hist[actor.Node] = map[int64]*NodeState{0: st}
		}
	}
}

func (m *MonC06) BucketOp(f *Fleet, op *BucketOp) {
	m.init(f)
	if op.Op != "store" || !op.Applied || op.Node == "" {
		return
	}
	n := f.NodeByName(op.Node)
	if n == nil {
		return
	}
	data, ok := f.Bucket.Get(op.Name)
	if !ok {
		return
	}
	P := m.prop()
	ref, err := RefDecode(data)
	if err != nil {
		f.Violate(Violation{P, "snapshot-decodes", "undecodable-upload",
			fmt.Sprintf("%s uploaded %s which the reference codec cannot decode: %v", n.Name, op.Name, err)})
		return
	}
	m.Checked++
	st := m.hist[n][ref.Meta.LmdbTxnID]
	if st == nil && m.unobserved[fmt.Sprintf("%s/%d", n.Name, ref.Meta.LmdbTxnID)] {
		f.Sim.Probe("c06-claimed-txn-not-observed")
		return
	}
	if st == nil {
		f.Violate(Violation{P, "image-of-one-txn", "unknown-txn-id",
			fmt.Sprintf("%s uploaded %s claiming LMDB transaction %d, but no such transaction was ever committed there", n.Name, op.Name, ref.Meta.LmdbTxnID)})
		return
	}
	raced := f.RaceTxn[fmt.Sprintf("%s/%d", n.Name, ref.Meta.LmdbTxnID)]
	if raced && m.SkipRaced {
		return
	}
	if raced {
		// Known finding: the application reused the id of LS's empty dump
		// transaction; the snapshot is the image of the transaction before.
		f.Sim.Probe("c06-snapshot-claims-raced-txn")
		if prev := m.hist[n][ref.Meta.LmdbTxnID-1]; prev != nil {
			pw, _ := prev.LogicalContent(n.Native)
			if len(DiffLogical(pw, RefLogical(ref))) == 0 && !m.Markers {
				f.Violate(Violation{P, "image-of-one-txn", "txnid-reuse-after-empty-ls-txn",
					fmt.Sprintf("%s uploaded %s claiming LMDB transaction %d, which is an application transaction that reused the id of LS's empty dump transaction; the content is the image of transaction %d", n.Name, op.Name, ref.Meta.LmdbTxnID, ref.Meta.LmdbTxnID-1)})
				return
			}
		}
	}
	want, _ := st.LogicalContent(n.Native)
	got := RefLogical(ref)
	if m.Markers {
		// C04 clause: every deletion marker stored at that transaction
		// travels in the snapshot.
		for _, dbi := range sortedKeys(want) {
			for _, k := range sortedKeys(want[dbi]) {
				w := want[dbi][k]
				if !w.Deleted {
					continue
				}
				g, ok := got[dbi][k]
				if !ok || !g.Deleted || g.TS != w.TS {
					f.Violate(Violation{P, "markers-in-snapshot", "marker-missing",
						fmt.Sprintf("%s uploaded %s (txn %d) without its deletion marker %s/%q %s", n.Name, op.Name, ref.Meta.LmdbTxnID, dbi, k, w)})
					return
				}
			}
		}
		return
	}
	if d := DiffLogical(want, got); len(d) > 0 {
		sig := "content-differs"
		// is it the image of some other transaction? then it is a stale or
		// torn dump
		torn := true
		for _, other := range m.hist[n] {
			oc, _ := other.LogicalContent(n.Native)
			if len(DiffLogical(oc, got)) == 0 {
				torn = false
			}
		}
		if torn {
			sig = "not-image-of-any-txn"
		} else {
			sig = "image-of-other-txn"
		}
		f.Violate(Violation{P, "image-of-one-txn", sig,
			fmt.Sprintf("%s uploaded %s claiming LMDB transaction %d: content differs from the stored state at that transaction: %s (stored vs snapshot)", n.Name, op.Name, ref.Meta.LmdbTxnID, d[0])})
		return
	}
	if !n.Native && !raced {
		// Shadow mode: the image is taken from the shadow DBIs after the
		// application's DBIs were mirrored into them in the same
		// transaction, so at the claimed transaction the live entries of
		// the snapshot are exactly the application's data.
		for _, dbi := range sortedKeys(st.AppDBIs()) {
			d := st.AppDBIs()[dbi]
			if d.Flags&lmdb.DupSort != 0 {
				continue
			}
			live := map[string]string{}
			for k, v := range got[dbi] {
				if !v.Deleted {
					live[k] = v.Val
				}
			}
			app := d.Map()
			for _, k := range sortedKeys(app) {
				if len(app[k]) == 0 {
					continue // known finding empty-application-value (C11)
				}
				if v, ok := live[k]; !ok || v != string(app[k]) {
					got := "no live entry"
					if ok {
						got = fmt.Sprintf("value %q", v)
					}
					f.Violate(Violation{P, "image-of-one-txn", "application-data-not-in-image",
						fmt.Sprintf("%s uploaded %s claiming LMDB transaction %d: at that transaction the application's DBI holds %s/%q=%q, the snapshot has %s", n.Name, op.Name, ref.Meta.LmdbTxnID, dbi, k, app[k], got)})
					return
				}
			}
			for _, k := range sortedKeys(live) {
				if _, ok := app[k]; !ok {
					f.Violate(Violation{P, "image-of-one-txn", "application-data-not-in-image",
						fmt.Sprintf("%s uploaded %s claiming LMDB transaction %d: the snapshot has a live %s/%q=%q which the application's DBI does not hold at that transaction", n.Name, op.Name, ref.Meta.LmdbTxnID, dbi, k, live[k])})
					return
				}
			}
		}
	}
	// DBI set and flags
	wantDBIs := map[string]uint{}
	if n.Native {
		for name, d := range st.HeaderDBIs(true) {
			wantDBIs[name] = d.Flags
		}
	} else {
		for name, d := range st.AppDBIs() {
			wantDBIs[name] = d.Flags
		}
	}
	seen := map[string]bool{}
	for _, d := range ref.Databases {
		if strings.HasPrefix(d.Name, syncPrefix) {
			f.Violate(Violation{P, "no-private-dbis", "private-dbi-in-snapshot",
				fmt.Sprintf("%s uploaded %s containing private DBI %s", n.Name, op.Name, d.Name)})
			return
		}
		if seen[d.Name] {
			f.Violate(Violation{P, "dbi-set", "duplicate-dbi",
				fmt.Sprintf("%s uploaded %s with DBI %s twice", n.Name, op.Name, d.Name)})
			return
		}
		seen[d.Name] = true
		fl, ok := wantDBIs[d.Name]
		if !ok {
			f.Violate(Violation{P, "dbi-set", "unknown-dbi",
				fmt.Sprintf("%s uploaded %s with DBI %s which does not exist at transaction %d", n.Name, op.Name, d.Name, ref.Meta.LmdbTxnID)})
			return
		}
		if uint64(fl) != d.Flags {
			f.Violate(Violation{P, "dbi-flags", "flags-differ",
				fmt.Sprintf("%s uploaded %s: DBI %s flags %#x, LMDB says %#x", n.Name, op.Name, d.Name, d.Flags, fl)})
			return
		}
	}
	for _, name := range sortedKeys(wantDBIs) {
		if !seen[name] {
			f.Violate(Violation{P, "dbi-set", "dbi-missing",
				fmt.Sprintf("%s uploaded %s without application DBI %s that exists at transaction %d", n.Name, op.Name, name, ref.Meta.LmdbTxnID)})
			return
		}
	}
	// no data beyond the published schema (e.g. local transaction ids)
	if canon, err := RefEncode(ref); err == nil {
		cs, _ := RefDecode(canon)
		a, _ := ref.Marshal()
		b, _ := cs.Marshal()
		pb, _ := gunzip(data)
		if len(a) != len(b) || len(pb) != len(a) {
			f.Violate(Violation{P, "schema-only", "extra-bytes",
				fmt.Sprintf("%s uploaded %s: %d protobuf bytes, canonical re-encoding has %d (unknown fields?)", n.Name, op.Name, len(pb), len(a))})
			return
		}
	}
	// name and metadata
	pn, ok := ParseSnapName(op.Name)
	if !ok {
		f.Violate(Violation{P, "name", "unparsable-name", fmt.Sprintf("%s uploaded an object with unparsable name %s", n.Name, op.Name)})
		return
	}
	if pn.DB != DBName || pn.Instance != n.Name || ref.Meta.DatabaseName != DBName || ref.Meta.InstanceID != n.Name {
		f.Violate(Violation{P, "name", "wrong-identity",
			fmt.Sprintf("%s uploaded %s with meta db=%q instance=%q", n.Name, op.Name, ref.Meta.DatabaseName, ref.Meta.InstanceID)})
		return
	}
	if uint64(pn.TS.UnixNano()) != ref.Meta.TimestampNano {
		f.Violate(Violation{P, "name", "name-meta-time-differ",
			fmt.Sprintf("%s uploaded %s but meta timestamp is %d", n.Name, op.Name, ref.Meta.TimestampNano)})
		return
	}
	now := uint64(time.Now().UnixNano())
	if ref.Meta.TimestampNano > now {
		f.Violate(Violation{P, "time", "time-in-future",
			fmt.Sprintf("%s uploaded %s at %d: its time lies in the future", n.Name, op.Name, now)})
		return
	}
	if prev, ok := m.lastTS[n.Name]; ok && op.Name != m.lastName[n.Name] && ref.Meta.TimestampNano <= prev {
		f.Violate(Violation{P, "time", "time-not-increasing",
			fmt.Sprintf("%s uploaded %s after %s: later snapshot does not carry a later time", n.Name, op.Name, m.lastName[n.Name])})
		return
	}
	m.lastTS[n.Name] = ref.Meta.TimestampNano
	m.lastName[n.Name] = op.Name
}

// ---------------------------------------------------------------------------
// C14: values written by Lightning Stream carry a well-formed header.
// ---------------------------------------------------------------------------

type MonC14 struct {
	BaseMonitor
	Checked int
	// BadKeys are node/dbi/key the application deliberately stored malformed
	BadNode map[*Node]int64 // node -> txn id of the malformed write
}

func (m *MonC14) NodeChanged(f *Fleet, n *Node, before, after *NodeState, actor Actor) {
	if actor.Kind != "ls" {
		return
	}
	hb := map[string]map[string][]byte{}
	if before != nil {
		for app, d := range before.HeaderDBIs(n.Native) {
			hb[app] = d.Map()
		}
	}
	for app, d := range after.HeaderDBIs(n.Native) {
		for _, p := range d.Pairs {
			if old, ok := hb[app][string(p.K)]; ok && eqBytes(old, p.V) {
				continue
			}
			// written by this LS transaction
			m.Checked++
			where := fmt.Sprintf("%s: %s wrote %s/%q = %x", n.Name, actor.Task.ID, d.Name, p.K, p.V)
			h, val, err := ParseHdr(p.V)
			if err != nil {
				f.Violate(Violation{"C14", "well-formed", "unparsable", where + ": " + err.Error()})
				return
			}
			if h.Flags&^1 != 0 {
				f.Violate(Violation{"C14", "well-formed", "unknown-flags", where + fmt.Sprintf(": flags %#x outside the synced set", h.Flags)})
				return
			}
			if h.Reserved != [4]byte{} {
				f.Violate(Violation{"C14", "well-formed", "reserved-nonzero", where})
				return
			}
			if h.TxnID != uint64(after.LastTxnID) {
				f.Violate(Violation{"C14", "well-formed", "wrong-txnid", where + fmt.Sprintf(": header txn id %d, written by transaction %d", h.TxnID, after.LastTxnID)})
				return
			}
			if h.Flags&1 != 0 && len(val) != 0 {
				f.Violate(Violation{"C14", "well-formed", "deleted-with-value", where})
				return
			}
			if h.TS == 0 {
				f.Sim.Probe("c14-zero-timestamp-written")
			}
		}
	}
}

func (m *MonC14) BucketOp(f *Fleet, op *BucketOp) {
	if op.Op != "store" || !op.Applied || op.Node == "" || len(m.BadNode) == 0 {
		return
	}
	n := f.NodeByName(op.Node)
	badTxn, bad := m.BadNode[n]
	if !bad {
		return
	}
	data, _ := f.Bucket.Get(op.Name)
	ref, err := RefDecode(data)
	if err != nil {
		return
	}
	if ref.Meta.LmdbTxnID >= badTxn {
		f.Violate(Violation{"C14", "malformed-rejected", "uploaded-despite-malformed-value",
			fmt.Sprintf("%s uploaded %s (txn %d) although its LMDB holds a value without a valid header since txn %d: the value was misread instead of rejected", n.Name, op.Name, ref.Meta.LmdbTxnID, badTxn)})
	}
}
