package lssim

import (
	"fmt"
	"regexp"
	"runtime"
	"sort"
	"strconv"
	"strings"
	"time"
)

// MonCancel (C17): cancelling the context of a running instance makes Sync
// return within a bounded simulated time, at whatever yield its goroutines
// are parked.
type MonCancel struct {
	BaseMonitor
	pending map[*Node]*cancelReq
	Checked int
}

type cancelReq struct {
	inc       int
	at        time.Duration
	parks     int // parks of the sync loop task at cancellation
	blockedAt int // sim step at which the sync loop was first seen blocked outside a yield point
}

// After cancellation the sync loop may finish what it is doing; it is taken
// to ignore the cancellation when it passes this many further yield points
// without returning, or stays blocked outside any yield point for this many
// scheduler steps (and maxCancelWait of simulated time).
const (
	maxCancelParks = 400
	maxCancelSteps = 300
	maxCancelWait  = 30 * time.Second
)

func (m *MonCancel) syncTask(f *Fleet, n *Node, inc int) *Task {
	for _, t := range f.Sim.TasksOf(n) {
		if t.Inc == inc && t.Role == "syncloop" {
			return t
		}
	}
	return nil
}

func (m *MonCancel) StepDone(f *Fleet, actor Actor) {
	if m.pending == nil {
		m.pending = map[*Node]*cancelReq{}
	}
	for _, n := range f.Nodes {
		if n.cancelledInc == n.Inc && n.cancelledInc != 0 && n.Inc > n.deadInc {
			if _, ok := m.pending[n]; !ok {
				req := &cancelReq{inc: n.Inc, at: n.cancelledAt, blockedAt: -1}
				if t := m.syncTask(f, n, n.Inc); t != nil {
					req.parks = t.Parks()
				}
				m.pending[n] = req
			}
		}
	}
	for _, n := range f.Nodes {
		req := m.pending[n]
		if req == nil {
			continue
		}
		if ret, _ := n.SyncReturned(req.inc); ret || req.inc <= n.deadInc {
			if ret {
				m.Checked++
				f.Sim.Probe("cancel-returned")
			}
			delete(m.pending, n)
			continue
		}
		t := m.syncTask(f, n, req.inc)
		if t == nil {
			continue
		}
		why := ""
		if d := t.Parks() - req.parks; d > maxCancelParks {
			why = fmt.Sprintf("its sync loop has passed %d further yield points (last: %s)", d, t.Point())
		} else if t.Parked() {
			req.blockedAt = -1
		} else if req.blockedAt < 0 {
			req.blockedAt = f.Sim.Step
		} else if f.Sim.Step-req.blockedAt > maxCancelSteps && f.Sim.Now()-req.at > maxCancelWait {
			why = fmt.Sprintf("its sync loop has been blocked outside any yield point for %d scheduler steps (last yield: %s)", f.Sim.Step-req.blockedAt, t.Point())
		}
		if why != "" {
			f.Violate(Violation{"C17", "cancel-returns", "sync-ignores-cancel",
				fmt.Sprintf("%s incarnation %d was cancelled at %s but Sync has not returned %s later: %s", n.Name, req.inc, req.at, f.Sim.Now()-req.at, why)})
			delete(m.pending, n)
		}
	}
}

// ---------------------------------------------------------------------------
// C17: nothing blocks forever. At the end of a fleet run every instance is
// stopped gracefully (context cancelled) and every goroutine is run until it
// ends. Whatever is then still alive inside repository code is blocked for
// good: all contexts are cancelled, nobody is parked at a yield point, the
// bubble's other goroutines are durably blocked.
// ---------------------------------------------------------------------------

var repoFrame = regexp.MustCompile(`(?m)^(github\.com/PowerDNS/lightningstream/[^\s(]+(?:\([^)]*\))?[^\s(]*)\(`)

// blockedRepoGoroutines returns, for every goroutine that has a frame in
// repository code (other than the verif hooks), its state and innermost
// repository function.
func blockedRepoGoroutines(gids map[uint64]string) []string {
	buf := make([]byte, 4<<20)
	n := runtime.Stack(buf, true)
	var out []string
	for _, g := range strings.Split(string(buf[:n]), "\n\n") {
		hdr := goroutineHdr.FindStringSubmatch(g)
		if hdr == nil {
			continue
		}
		gid, _ := strconv.ParseUint(hdr[1], 10, 64)
		task, mine := gids[gid]
		if !mine {
			continue // not a goroutine of this run's instances
		}
		fn := ""
		for _, m := range repoFrame.FindAllStringSubmatch(g, -1) {
			if strings.Contains(m[1], "/utils/verifhook.") {
				continue
			}
			fn = m[1]
			break
		}
		if fn == "" {
			continue
		}
		fn = strings.TrimPrefix(fn, "github.com/PowerDNS/lightningstream/")
		out = append(out, fmt.Sprintf("%s [%s] in %s", task, strings.SplitN(hdr[2], ",", 2)[0], fn))
	}
	sort.Strings(out)
	return out
}

// wedgeCheck stops everything gracefully and reports goroutines that never end.
func (f *Fleet) wedgeCheck() {
	if f.Failed() {
		return
	}
	// Only incarnations that are stopped gracefully here are judged: a
	// crashed one was killed at its yield points, and what its surviving
	// goroutines wait for (a token held by a killed goroutine) died with the
	// simulated process.
	final := map[*Node]int{}
	for _, n := range f.Nodes {
		if n.Running {
			f.Sim.Logf("  node %s final cancel", n.Name)
			final[n] = n.Inc
			n.Cancel()
		}
	}
	for i := 0; ; i++ {
		ps := f.Sim.Quiesce()
		if len(ps) == 0 {
			break
		}
		if i > 20000 {
			f.Violate(Violation{"C17", "nothing-blocks-forever", "still-running-after-cancel",
				fmt.Sprintf("20000 scheduler steps after every context was cancelled, %s is still passing yield points (at %s)", ps[0].ID, ps[0].Point())})
			return
		}
		sort.Slice(ps, func(a, b int) bool { return ps[a].ID < ps[b].ID })
		f.Sim.Release(ps[0])
	}
	f.Sim.Probe("wedge-check")
	gids := map[uint64]string{}
	for _, n := range f.Nodes {
		for _, t := range f.Sim.TasksOf(n) {
			if inc, ok := final[n]; ok && t.Inc == inc {
				gids[t.gid] = t.ID
			}
		}
	}
	if bl := blockedRepoGoroutines(gids); len(bl) > 0 {
		sig := bl[0]
		if i := strings.Index(sig, " in "); i >= 0 {
			sig = sig[i+4:]
		}
		f.Violate(Violation{"C17", "nothing-blocks-forever", "blocked@" + sig,
			fmt.Sprintf("after every instance was cancelled and every goroutine was run until it ended or blocked, %d goroutine(s) remain blocked in repository code: %s", len(bl), strings.Join(bl, "; "))})
	}
}
