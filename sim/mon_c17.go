package lssim

import (
	"fmt"
	"time"
)

// MonCancel (C17): cancelling the context of a running instance makes Sync
// return within a bounded simulated time, at whatever yield its goroutines
// are parked.
type MonCancel struct {
	BaseMonitor
	pending map[*Node]*cancelReq
	Checked int
}

type cancelReq struct {
	inc       int
	at        time.Duration
	parks     int // parks of the sync loop task at cancellation
	blockedAt int // sim step at which the sync loop was first seen blocked outside a yield point
}

// After cancellation the sync loop may finish what it is doing; it is taken
// to ignore the cancellation when it passes this many further yield points
// without returning, or stays blocked outside any yield point for this many
// scheduler steps (and maxCancelWait of simulated time).
const (
	maxCancelParks = 150
	maxCancelSteps = 300
	maxCancelWait  = 30 * time.Second
)

func (m *MonCancel) syncTask(f *Fleet, n *Node, inc int) *Task {
	for _, t := range f.Sim.TasksOf(n) {
		if t.Inc == inc && t.Role == "syncloop" {
			return t
		}
	}
	return nil
}

func (m *MonCancel) StepDone(f *Fleet, actor Actor) {
	if m.pending == nil {
		m.pending = map[*Node]*cancelReq{}
	}
	for _, n := range f.Nodes {
		if n.cancelledInc == n.Inc && n.cancelledInc != 0 && n.Inc > n.deadInc {
			if _, ok := m.pending[n]; !ok {
				req := &cancelReq{inc: n.Inc, at: n.cancelledAt, blockedAt: -1}
				if t := m.syncTask(f, n, n.Inc); t != nil {
					req.parks = t.Parks()
				}
				m.pending[n] = req
			}
		}
	}
	for _, n := range f.Nodes {
		req := m.pending[n]
		if req == nil {
			continue
		}
		if ret, _ := n.SyncReturned(req.inc); ret || req.inc <= n.deadInc {
			if ret {
				m.Checked++
				f.Sim.Probe("cancel-returned")
			}
			delete(m.pending, n)
			continue
		}
		t := m.syncTask(f, n, req.inc)
		if t == nil {
			continue
		}
		why := ""
		if d := t.Parks() - req.parks; d > maxCancelParks {
			why = fmt.Sprintf("its sync loop has passed %d further yield points (last: %s)", d, t.Point())
		} else if t.Parked() {
			req.blockedAt = -1
		} else if req.blockedAt < 0 {
			req.blockedAt = f.Sim.Step
		} else if f.Sim.Step-req.blockedAt > maxCancelSteps && f.Sim.Now()-req.at > maxCancelWait {
			why = fmt.Sprintf("its sync loop has been blocked outside any yield point for %d scheduler steps (last yield: %s)", f.Sim.Step-req.blockedAt, t.Point())
		}
		if why != "" {
			f.Violate(Violation{"C17", "cancel-returns", "sync-ignores-cancel",
				fmt.Sprintf("%s incarnation %d was cancelled at %s but Sync has not returned %s later: %s", n.Name, req.inc, req.at, f.Sim.Now()-req.at, why)})
			delete(m.pending, n)
		}
	}
}
