package lssim

import (
	"fmt"
)

// C11: shadow mode mirrors application data faithfully in both directions.
// A map-based reference of the mirror, evaluated after every Lightning
// Stream transaction of a shadow-mode instance.
type MonC11 struct {
	BaseMonitor
	Checked  int
	Captures int
}

func appMap(st *NodeState, dbi string) (map[string][]byte, bool) {
	d, ok := st.AppDBIs()[dbi]
	if !ok {
		return nil, false
	}
	return d.Map(), true
}

func (m *MonC11) NodeChanged(f *Fleet, n *Node, before, after *NodeState, actor Actor) {
	if n.Native || actor.Kind != "ls" || before == nil || actor.Task == nil || actor.Task.Role != "syncloop" {
		return
	}
	rel := actor.Task.relPoint
	isLoad := rel == "sync:before-load"
	startup := rel == "sync:before-startup-shadow"
	t0 := uint64(actor.At.UnixNano())
	m.Checked++
	sb, _ := before.LogicalContent(false)
	sa, errs := after.LogicalContent(false)
	if len(errs) > 0 {
		f.Violate(Violation{"C11", "mirror", "unparsable-shadow-value", errs[0]})
		return
	}
	// Known finding: shadow mode mishandles application values of zero
	// length in several ways; all of them are classed by that input.
	emptySig := func(sig string, v []byte, present bool) string {
		if present && len(v) == 0 {
			return "empty-application-value"
		}
		return sig
	}
	// (1) every application change since the previous step is captured as a
	// new version stamped with the time of detection; untouched entries keep
	// their previous timestamps
	for _, dbi := range sortedKeys(before.AppDBIs()) {
		am, _ := appMap(before, dbi)
		keys := map[string]bool{}
		for k := range am {
			keys[k] = true
		}
		for k := range sb[dbi] {
			keys[k] = true
		}
		for _, k := range sortedKeys(keys) {
			av, present := am[k]
			sOld, sOldOK := sb[dbi][k]
			captured := false
			if present {
				captured = sOldOK && !sOld.Deleted && sOld.Val == string(av)
			} else {
				captured = !sOldOK || sOld.Deleted
			}
			sNew, sNewOK := sa[dbi][k]
			id := fmt.Sprintf("%s/%x", dbi, k)
			if captured {
				// untouched by the application: only a merge may change it
				if sOldOK && (!sNewOK || sNew != sOld) {
					if !isLoad {
						f.Violate(Violation{"C11", "untouched-keep-timestamp", "untouched-entry-restamped",
							fmt.Sprintf("%s: %s changed the shadow entry %s from %v to %v (present=%v) although the application did not touch the key and nothing was merged", n.Name, rel, id, sOld, sNew, sNewOK)})
						return
					}
					if !sNewOK || sNew.TS < sOld.TS {
						f.Violate(Violation{"C11", "untouched-keep-timestamp", "untouched-entry-moved-back",
							fmt.Sprintf("%s: merge changed the shadow entry %s from %v to %v (present=%v)", n.Name, id, sOld, sNew, sNewOK)})
						return
					}
				}
				continue
			}
			if f.RaceKeys[n.Name+"/"+dbi+"/"+k] {
				continue // known finding (transaction id reuse), reported by C03/C09
			}
			if f.ShadowTaint[dbi+"/"+k] {
				continue
			}
			// an application change that must be captured now
			m.Captures++
			what := "delete"
			if present {
				what = fmt.Sprintf("value %q", av)
			}
			if !sNewOK {
				f.Violate(Violation{"C11", "change-captured", emptySig("change-not-captured", av, present),
					fmt.Sprintf("%s: %s did not capture the application's change of %s (%s): no shadow entry", n.Name, rel, id, what)})
				return
			}
			if startup {
				continue // start-up pass: captured with a timestamp in the past (documented)
			}
			if sNew.TS < t0 {
				// Not stamped with the time of detection. (After a merge the
				// entry may hold a remote version instead, but only one that
				// is not older than the detection, which the shared monotone
				// clock rules out except for the same instant.)
				sig := "change-not-stamped-with-detection-time"
				if isLoad && !valueMatches(sNew, av, present) {
					sig = "local-change-lost-to-older-remote"
				}
				f.Violate(Violation{"C11", "change-captured", emptySig(sig, av, present),
					fmt.Sprintf("%s: %s: the application's change of %s (%s) was detected at %d but the shadow holds %v afterwards (before: %v present=%v)", n.Name, rel, id, what, t0, sNew, sOld, sOldOK)})
				return
			}
			if !isLoad && !valueMatches(sNew, av, present) {
				f.Violate(Violation{"C11", "change-captured", emptySig("captured-wrong-value", av, present),
					fmt.Sprintf("%s: %s captured the application's change of %s (%s) as %v", n.Name, rel, id, what, sNew)})
				return
			}
		}
	}
	// (2) after a merge the application's DBIs contain exactly the live
	// entries of the merged state; a capture-only step leaves them alone
	if isLoad {
		for _, dbi := range sortedKeys(sa) {
			am, ok := appMap(after, dbi)
			if !ok {
				if len(sa[dbi]) > 0 {
					f.Violate(Violation{"C11", "mirror-to-app", "application-dbi-missing", fmt.Sprintf("%s: merged state has DBI %s but the application DBI does not exist", n.Name, dbi)})
					return
				}
				continue
			}
			for _, k := range sortedKeys(sa[dbi]) {
				v := sa[dbi][k]
				got, present := am[k]
				id := fmt.Sprintf("%s/%x", dbi, k)
				if v.Deleted && present {
					f.Violate(Violation{"C11", "mirror-to-app", "deleted-key-present", fmt.Sprintf("%s: %s is deleted (%v) but present in the application DBI with %q", n.Name, id, v, got)})
					return
				}
				if !v.Deleted && (!present || string(got) != v.Val) {
					sig := "live-entry-not-mirrored"
					if v.Val == "" {
						sig = "empty-application-value"
					}
					f.Violate(Violation{"C11", "mirror-to-app", sig, fmt.Sprintf("%s: merged state holds %s = %v but the application DBI has %q (present=%v)", n.Name, id, v, got, present)})
					return
				}
			}
			for _, k := range sortedKeys(am) {
				if _, ok := sa[dbi][k]; !ok {
					f.Violate(Violation{"C11", "mirror-to-app", "extra-key-in-application-dbi", fmt.Sprintf("%s: application DBI %s has key %x which the merged state does not know", n.Name, dbi, k)})
					return
				}
			}
		}
	} else {
		for _, dbi := range sortedKeys(before.AppDBIs()) {
			if !samePairs(before.AppDBIs()[dbi], after.AppDBIs()[dbi]) {
				f.Violate(Violation{"C11", "capture-leaves-app-alone", "application-dbi-changed-by-capture", fmt.Sprintf("%s: %s changed application DBI %s although nothing was merged", n.Name, rel, dbi)})
				return
			}
		}
	}
}

func valueMatches(s Version, app []byte, present bool) bool {
	if !present {
		return s.Deleted
	}
	return !s.Deleted && s.Val == string(app)
}
