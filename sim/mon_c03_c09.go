package lssim

import (
	"fmt"
	"strings"
)

// ---------------------------------------------------------------------------
// C03: a committed local application write is never destroyed by syncing.
// Monitor after every Lightning Stream transaction of every node.
// ---------------------------------------------------------------------------

type MonC03 struct {
	BaseMonitor
	// replaced[a][b] records that version a was replaced by b at equal ts
	replaced map[Version]map[Version]bool
	Checked  int
}

func wins(newV, oldV Version) bool {
	return newV.TS > oldV.TS
}

func (m *MonC03) NodeChanged(f *Fleet, n *Node, before, after *NodeState, actor Actor) {
	if actor.Kind != "ls" || before == nil {
		return
	}
	if actor.Task != nil && actor.Task.Role == "sweeper" {
		return // the tomb sweeper has its own property (C13)
	}
	m.Checked++
	if n.Native {
		b, _ := before.LogicalContent(true)
		a, _ := after.LogicalContent(true)
		for _, dbi := range sortedKeys(b) {
			for _, k := range sortedKeys(b[dbi]) {
				ov := b[dbi][k]
				nv, ok := a[dbi][k]
				if !ok {
					f.Violate(Violation{"C03", "native-no-removal", "key-removed",
						fmt.Sprintf("%s: %s removed %s/%q which held %s", n.Name, actor.Task.ID, dbi, k, ov)})
					return
				}
				if nv == ov {
					continue
				}
				if nv.TS < ov.TS {
					f.Violate(Violation{"C03", "lww-only", "replaced-by-older",
						fmt.Sprintf("%s: %s replaced %s/%q %s by older %s", n.Name, actor.Task.ID, dbi, k, ov, nv)})
					return
				}
				if nv.TS == ov.TS {
					if m.replaced == nil {
						m.replaced = map[Version]map[Version]bool{}
					}
					if m.replaced[nv][ov] {
						f.Violate(Violation{"C03", "lww-only", "tie-break-both-ways",
							fmt.Sprintf("%s: %s replaced %s/%q %s by %s, the opposite replacement was seen before", n.Name, actor.Task.ID, dbi, k, ov, nv)})
						return
					}
					if m.replaced[ov] == nil {
						m.replaced[ov] = map[Version]bool{}
					}
					m.replaced[ov][nv] = true
					f.Sim.Probe("c03-equal-ts-replacement")
				}
			}
		}
		return
	}
	// shadow mode: application-visible content is the plain DBIs
	sb, _ := before.LogicalContent(false)
	sa, _ := after.LogicalContent(false)
	ab := before.AppDBIs()
	aa := after.AppDBIs()
	for _, dbi := range sortedKeys(ab) {
		bm := ab[dbi].Map()
		var am map[string][]byte
		if d, ok := aa[dbi]; ok {
			am = d.Map()
		} else {
			if len(bm) > 0 {
				f.Violate(Violation{"C03", "shadow-app-view", "dbi-removed",
					fmt.Sprintf("%s: application DBI %s disappeared in a Lightning Stream transaction", n.Name, dbi)})
				return
			}
			continue
		}
		keys := map[string]bool{}
		for k := range bm {
			keys[k] = true
		}
		for k := range am {
			keys[k] = true
		}
		for _, k := range sortedKeys(keys) {
			bv, bok := bm[k]
			av, aok := am[k]
			if bok == aok && string(bv) == string(av) {
				continue
			}
			// the application-visible value of k changed in an LS transaction
			sOld, sOldOK := sb[dbi][k]
			captured := false
			if bok {
				captured = sOldOK && !sOld.Deleted && sOld.Val == string(bv)
			} else {
				captured = !sOldOK || sOld.Deleted
			}
			sNew, sNewOK := sa[dbi][k]
			desc := func() string {
				b, a := "absent", "absent"
				if bok {
					b = fmt.Sprintf("%q", bv)
				}
				if aok {
					a = fmt.Sprintf("%q", av)
				}
				return fmt.Sprintf("%s: %s changed application value %s/%q from %s to %s (shadow before=%v after=%v)",
					n.Name, actor.Task.ID, dbi, k, b, a, sOld, sNew)
			}
			if !captured {
				sig := "uncaptured-local-write-lost"
				if f.RaceKeys[n.Name+"/"+dbi+"/"+k] {
					sig = "txnid-reuse-after-empty-ls-txn"
				}
				f.Violate(Violation{"C03", "shadow-uncaptured-survives", sig,
					desc() + ": the local write had not been captured yet, so nothing can have superseded it"})
				return
			}
			if !sNewOK {
				f.Violate(Violation{"C03", "shadow-app-view", "changed-without-version", desc()})
				return
			}
			if sOldOK && sNew.TS < sOld.TS {
				f.Violate(Violation{"C03", "lww-only", "replaced-by-older", desc()})
				return
			}
			if sOldOK && sNew.TS == sOld.TS {
				f.Sim.Probe("c03-equal-ts-replacement")
			}
		}
	}
}

// ---------------------------------------------------------------------------
// C09: every committed local change gets published.
// ---------------------------------------------------------------------------

type appWrite struct {
	DBI, Key string
	TS       uint64 // native: written ts; shadow: commit wall clock (ns)
	Step     int
	Del      bool
	Val      string
}

type MonC09 struct {
	BaseMonitor
	writes    map[*Node][]appWrite
	pollWakes map[*Node]int
	firstWake map[*Node]int // step of the first poll wake of the quiet period
	ownAtInc  map[*Node]map[int]bool
	storeErr  map[*Node]bool
	origin    map[*Node]map[string]Version // shadow: versions captured locally
	storedInc map[*Node]map[int]bool
	IdleChk   int
	EndChk    int
}

func (m *MonC09) init() {
	if m.writes == nil {
		m.writes = map[*Node][]appWrite{}
		m.pollWakes = map[*Node]int{}
		m.firstWake = map[*Node]int{}
		m.ownAtInc = map[*Node]map[int]bool{}
		m.storeErr = map[*Node]bool{}
		m.origin = map[*Node]map[string]Version{}
		m.storedInc = map[*Node]map[int]bool{}
	}
}

func (m *MonC09) disturb(n *Node) {
	m.pollWakes[n] = 0
}

func (m *MonC09) BucketOp(f *Fleet, op *BucketOp) {
	m.init()
	n := f.NodeByName(op.Node)
	if n == nil {
		return
	}
	if op.Op == "store" {
		m.storeErr[n] = op.Err != ""
		if op.Err != "" {
			m.disturb(n) // a failing upload legitimately delays publication
		} else {
			if m.storedInc[n] == nil {
				m.storedInc[n] = map[int]bool{}
			}
			m.storedInc[n][n.Inc] = true
		}
	}
	if op.Op == "list" && strings.HasPrefix(op.Task, n.Name+"/syncloop") && op.Err == "" {
		// initial listing of this incarnation: did it show own snapshots?
		if m.ownAtInc[n] == nil {
			m.ownAtInc[n] = map[int]bool{}
		}
		if _, seen := m.ownAtInc[n][n.Inc]; !seen {
			own := false
			for _, name := range op.Names {
				if pn, ok := ParseSnapName(name); ok && pn.Instance == n.Name {
					own = true
				}
			}
			m.ownAtInc[n][n.Inc] = own
		}
	}
}

func (m *MonC09) NodeChanged(f *Fleet, n *Node, before, after *NodeState, actor Actor) {
	m.init()
	if n.Native || actor.Kind != "ls" {
		return
	}
	if m.origin[n] == nil {
		m.origin[n] = map[string]Version{}
	}
	for k, v := range f.LastNew {
		m.origin[n][k] = v
	}
}

func (m *MonC09) StepDone(f *Fleet, actor Actor) {
	m.init()
	switch actor.Kind {
	case "app":
		n := actor.Node
		for _, op := range actor.Ops {
			w := appWrite{DBI: op.DBI, Key: string(op.Key), Step: f.Sim.Step, Del: op.Kind == OpDel, Val: string(op.Val)}
			if n.Native {
				w.TS = op.TS
			} else {
				w.TS = uint64(actor.At.UnixNano())
			}
			m.writes[n] = append(m.writes[n], w)
		}
		m.disturb(n)
	case "harness":
		if actor.Node != nil {
			m.disturb(actor.Node)
			if actor.Node.Env != nil && f.state[actor.Node] != nil && f.state[actor.Node].LastTxnID == 0 {
				// LMDB emptied: earlier local writes are gone with it
				m.writes[actor.Node] = nil
				m.origin[actor.Node] = nil
			}
		}
	case "ls":
		t := actor.Task
		if t == nil || t.Role != "syncloop" || !t.Node.Running || t.Inc != t.Node.Inc {
			return
		}
		// The sync loop was released from a poll wake-up: one full loop
		// iteration lies between two consecutive poll wake-ups.
		retryWake := strings.HasPrefix(t.relPrev, "bucket:store") && m.storeErr[t.Node]
		if t.relRaw == "sleep:wake" && !retryWake {
			n := t.Node
			m.pollWakes[n]++
			if m.pollWakes[n] == 1 {
				m.firstWake[n] = f.Sim.Step
			}
			if m.pollWakes[n] >= 2 && f.Phase != "" {
				// gate: must have passed the own-snapshot gate
				if m.ownAtInc[n][n.Inc] && !m.storedInc[n][n.Inc] {
					return
				}
				m.IdleChk++
				m.check(f, n, m.firstWake[n], "idle")
			}
		}
	}
}

func (m *MonC09) AtEnd(f *Fleet) {
	m.init()
	for _, n := range f.Nodes {
		if !n.Running {
			continue
		}
		m.EndChk++
		m.check(f, n, f.Sim.Step+1, "end")
	}
}

// check verifies that every local write made before step `before` is
// reflected in the newest own snapshot.
func (m *MonC09) check(f *Fleet, n *Node, before int, when string) {
	if f.Failed() {
		return
	}
	var ws []appWrite
	for _, w := range m.writes[n] {
		if w.Step < before && !f.ShadowTaint[w.DBI+"/"+w.Key] {
			ws = append(ws, w)
		}
	}
	if len(ws) == 0 {
		return
	}
	name, ok := f.NewestByInstance()[n.Name]
	if !ok && !n.Native {
		// shadow mode: nothing to publish unless a version originated here
		// (a delete of a key that never existed, say, creates no version)
		pending := len(f.UncapturedKeys(n)) > 0
		for id := range m.origin[n] {
			if !f.ShadowTaint[id] {
				pending = true
			}
		}
		if !pending {
			return
		}
	}
	if !ok {
		w := ws[0]
		f.Violate(Violation{"C09", "published-" + when, "no-snapshot",
			fmt.Sprintf("%s: sync loop idle (%s) but no snapshot of this instance exists although the application wrote %s/%q at step %d", n.Name, when, w.DBI, w.Key, w.Step)})
		return
	}
	data, _ := f.Bucket.Get(name)
	ref, err := RefDecode(data)
	if err != nil {
		return // C07/C08 matter
	}
	content := RefLogical(ref)
	sigFor := func(w appWrite) string {
		if f.RaceKeys[n.Name+"/"+w.DBI+"/"+w.Key] {
			return "txnid-reuse-after-empty-ls-txn"
		}
		return "local-write-unpublished"
	}
	if n.Native {
		for _, w := range ws {
			v, ok := content[w.DBI][w.Key]
			if !ok || v.TS < w.TS {
				got := "no entry"
				if ok {
					got = v.String()
				}
				f.Violate(Violation{"C09", "published-" + when, sigFor(w),
					fmt.Sprintf("%s: sync loop idle (%s): newest snapshot %s has %s for %s/%q but the application wrote it at step %d (ts %d, del=%v val=%q)",
						n.Name, when, name, got, w.DBI, w.Key, w.Step, w.TS, w.Del, w.Val)})
				return
			}
		}
		return
	}
	// Shadow mode. (1) At an idle moment every application change must have
	// been captured: the application DBIs equal the live shadow entries.
	if keys := f.UncapturedKeys(n); len(keys) > 0 {
		for _, k := range keys {
			if f.ShadowTaint[k] {
				continue
			}
			sig := "local-write-uncaptured"
			if f.RaceKeys[n.Name+"/"+k] {
				sig = "txnid-reuse-after-empty-ls-txn"
			}
			f.Violate(Violation{"C09", "published-" + when, sig,
				fmt.Sprintf("%s: sync loop idle (%s) but the application's change of %s has not been captured into a version", n.Name, when, k)})
			return
		}
	}
	// (2) Every version that originated on this instance (captured from the
	// local application) is in its newest snapshot, or something newer is.
	for _, id := range sortedKeys(m.origin[n]) {
		lv := m.origin[n][id]
		if f.ShadowTaint[id] {
			continue
		}
		parts := strings.SplitN(id, "/", 2)
		s, sok := content[parts[0]][parts[1]]
		if !sok || s.TS < lv.TS {
			got := "no entry"
			if sok {
				got = s.String()
			}
			sig := "local-write-unpublished"
			if f.RaceKeys[n.Name+"/"+id] {
				sig = "txnid-reuse-after-empty-ls-txn"
			}
			f.Violate(Violation{"C09", "published-" + when, sig,
				fmt.Sprintf("%s: sync loop idle (%s): newest snapshot %s has %s for %s but this instance captured the local version %s",
					n.Name, when, name, got, id, lv)})
			return
		}
	}
}
