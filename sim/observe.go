package lssim

import (
	"bytes"
	"encoding/binary"
	"fmt"
	"sort"
	"strings"

	"github.com/PowerDNS/lmdb-go/lmdb"
)

// This file contains the harness's own readers. They do not use any
// Lightning Stream code: the LMDB is read with plain cursors and the value
// header is parsed by a parser written from docs/schema-native.md.

const (
	shadowPrefix = "_sync_shadow_"
	syncPrefix   = "_sync"
	hdrMin       = 24
)

// Hdr is an independently parsed value header.
type Hdr struct {
	TS       uint64
	TxnID    uint64
	Version  byte
	Flags    byte
	Reserved [4]byte
	NumExtra int
	Extra    []byte
}

// ParseHdr parses a stored value per docs/schema-native.md. It returns the
// application value that follows the header and all extension blocks.
func ParseHdr(val []byte) (h Hdr, app []byte, err error) {
	if len(val) < hdrMin {
		return h, nil, fmt.Errorf("value of %d bytes is shorter than the 24 byte header", len(val))
	}
	h.TS = binary.BigEndian.Uint64(val[0:8])
	h.TxnID = binary.BigEndian.Uint64(val[8:16])
	h.Version = val[16]
	h.Flags = val[17]
	copy(h.Reserved[:], val[18:22])
	h.NumExtra = int(binary.BigEndian.Uint16(val[22:24]))
	if h.Version != 0 {
		return h, nil, fmt.Errorf("header version %d", h.Version)
	}
	end := hdrMin + 8*h.NumExtra
	if len(val) < end {
		return h, nil, fmt.Errorf("value of %d bytes too short for %d extension blocks", len(val), h.NumExtra)
	}
	h.Extra = val[hdrMin:end]
	return h, val[end:], nil
}

// MakeHdr builds a value with a version-0 header, as a native application
// would write it.
func MakeHdr(ts, txnID uint64, flags byte, extraBlocks int, app []byte) []byte {
	b := make([]byte, hdrMin+8*extraBlocks, hdrMin+8*extraBlocks+len(app))
	binary.BigEndian.PutUint64(b[0:8], ts)
	binary.BigEndian.PutUint64(b[8:16], txnID)
	b[16] = 0
	b[17] = flags
	binary.BigEndian.PutUint16(b[22:24], uint16(extraBlocks))
	for i := hdrMin; i < len(b); i++ {
		b[i] = byte(0xE0 + i%16) // recognisable extension content
	}
	return append(b, app...)
}

// Version is the logical content of one key: what the properties talk about.
type Version struct {
	TS      uint64
	Deleted bool
	Val     string
}

func (v Version) String() string {
	d := ""
	if v.Deleted {
		d = " DEL"
	}
	return fmt.Sprintf("(ts=%d%s val=%q)", v.TS, d, v.Val)
}

// Entry is one stored key of a DBI with headers.
type Entry struct {
	Raw    []byte
	Hdr    Hdr
	App    []byte
	HdrErr string
}

func (e Entry) Version() Version {
	v := Version{TS: e.Hdr.TS, Deleted: e.Hdr.Flags&1 != 0, Val: string(e.App)}
	if v.Deleted {
		v.Val = ""
	}
	return v
}

type KVPair struct{ K, V []byte }

// DBIState is the raw content of one named DBI in cursor order.
type DBIState struct {
	Name  string
	Flags uint
	Pairs []KVPair // cursor order, includes duplicates for dupsort DBIs
}

func (d *DBIState) Map() map[string][]byte {
	m := make(map[string][]byte, len(d.Pairs))
	for _, p := range d.Pairs {
		m[string(p.K)] = p.V
	}
	return m
}

// NodeState is a full dump of one LMDB environment.
type NodeState struct {
	envPtr    *lmdb.Env
	LastTxnID int64
	DBIs      map[string]*DBIState
	Names     []string
}

// DumpEnv reads the whole environment in one read transaction.
func DumpEnv(env *lmdb.Env) (*NodeState, error) {
	st := &NodeState{DBIs: map[string]*DBIState{}}
	err := env.View(func(txn *lmdb.Txn) error {
		st.LastTxnID = int64(txn.ID())
		root, err := txn.OpenRoot(0)
		if err != nil {
			return err
		}
		c, err := txn.OpenCursor(root)
		if err != nil {
			return err
		}
		var names []string
		for {
			k, _, err := c.Get(nil, nil, lmdb.Next)
			if lmdb.IsNotFound(err) {
				break
			}
			if err != nil {
				c.Close()
				return err
			}
			names = append(names, string(k))
		}
		c.Close()
		for _, name := range names {
			dbi, err := txn.OpenDBI(name, 0)
			if err != nil {
				continue // a plain key in the root DB, not a DBI
			}
			fl, err := txn.Flags(dbi)
			if err != nil {
				return err
			}
			ds := &DBIState{Name: name, Flags: fl}
			c, err := txn.OpenCursor(dbi)
			if err != nil {
				return err
			}
			for {
				k, v, err := c.Get(nil, nil, lmdb.Next)
				if lmdb.IsNotFound(err) {
					break
				}
				if err != nil {
					c.Close()
					return err
				}
				ds.Pairs = append(ds.Pairs, KVPair{K: k, V: v})
			}
			c.Close()
			st.DBIs[name] = ds
			st.Names = append(st.Names, name)
		}
		return nil
	})
	if err != nil {
		return nil, err
	}
	sort.Strings(st.Names)
	return st, nil
}

// LastTxnID reads the id of the last committed transaction.
func LastTxnID(env *lmdb.Env) int64 {
	info, err := env.Info()
	if err != nil {
		return -1
	}
	return info.LastTxnID
}

// Fingerprint is a deterministic digest of the byte-exact content.
func (st *NodeState) Fingerprint() string {
	var sb strings.Builder
	fmt.Fprintf(&sb, "txn=%d;", st.LastTxnID)
	for _, name := range st.Names {
		d := st.DBIs[name]
		fmt.Fprintf(&sb, "[%s fl=%x n=%d]", name, d.Flags, len(d.Pairs))
		for _, p := range d.Pairs {
			fmt.Fprintf(&sb, "%x=%x,", p.K, p.V)
		}
	}
	return sb.String()
}

// ContentFingerprint is like Fingerprint but without the transaction id.
func (st *NodeState) ContentFingerprint() string {
	f := st.Fingerprint()
	return f[strings.Index(f, ";")+1:]
}

// HeaderDBIs returns the names of the DBIs whose values carry headers, keyed
// by application DBI name: native mode = every non-private DBI, shadow mode =
// the shadow DBIs.
func (st *NodeState) HeaderDBIs(native bool) map[string]*DBIState {
	out := map[string]*DBIState{}
	for _, name := range st.Names {
		if native {
			if strings.HasPrefix(name, syncPrefix) {
				continue
			}
			out[name] = st.DBIs[name]
		} else if strings.HasPrefix(name, shadowPrefix) {
			out[strings.TrimPrefix(name, shadowPrefix)] = st.DBIs[name]
		}
	}
	return out
}

// AppDBIs returns the application's plain DBIs (shadow mode only).
func (st *NodeState) AppDBIs() map[string]*DBIState {
	out := map[string]*DBIState{}
	for _, name := range st.Names {
		if !strings.HasPrefix(name, syncPrefix) {
			out[name] = st.DBIs[name]
		}
	}
	return out
}

// Logical is dbi -> key -> Version, the content properties C01.. compare.
type Logical map[string]map[string]Version

// LogicalContent parses all header DBIs. Values whose header does not parse
// are reported in errs.
func (st *NodeState) LogicalContent(native bool) (Logical, []string) {
	out := Logical{}
	var errs []string
	for app, d := range st.HeaderDBIs(native) {
		m := map[string]Version{}
		for _, p := range d.Pairs {
			h, val, err := ParseHdr(p.V)
			if err != nil {
				errs = append(errs, fmt.Sprintf("dbi %s key %x: %v", d.Name, p.K, err))
				continue
			}
			v := Version{TS: h.TS, Deleted: h.Flags&1 != 0, Val: string(val)}
			if v.Deleted {
				v.Val = "" // a deleted entry has no application value, whatever bytes follow the header
			}
			m[string(p.K)] = v
		}
		out[app] = m
	}
	sort.Strings(errs)
	return out, errs
}

func (l Logical) String() string {
	var dbis []string
	for d := range l {
		dbis = append(dbis, d)
	}
	sort.Strings(dbis)
	var sb strings.Builder
	for _, d := range dbis {
		var keys []string
		for k := range l[d] {
			keys = append(keys, k)
		}
		sort.Strings(keys)
		fmt.Fprintf(&sb, "%s{", d)
		for _, k := range keys {
			fmt.Fprintf(&sb, "%q:%s ", k, l[d][k])
		}
		sb.WriteString("} ")
	}
	return sb.String()
}

// DiffLogical describes the first differences between two contents.
func DiffLogical(a, b Logical) []string {
	var out []string
	seen := map[string]bool{}
	for d := range a {
		seen[d] = true
	}
	for d := range b {
		seen[d] = true
	}
	var dbis []string
	for d := range seen {
		dbis = append(dbis, d)
	}
	sort.Strings(dbis)
	for _, d := range dbis {
		am, aok := a[d]
		bm, bok := b[d]
		if !aok || !bok {
			// a DBI that exists on one side only matters if it has entries
			if len(am)+len(bm) > 0 {
				out = append(out, fmt.Sprintf("dbi %s present=%v/%v", d, aok, bok))
			}
			continue
		}
		ks := map[string]bool{}
		for k := range am {
			ks[k] = true
		}
		for k := range bm {
			ks[k] = true
		}
		var keys []string
		for k := range ks {
			keys = append(keys, k)
		}
		sort.Strings(keys)
		for _, k := range keys {
			av, aok := am[k]
			bv, bok := bm[k]
			if aok != bok || av != bv {
				as, bs := "absent", "absent"
				if aok {
					as = av.String()
				}
				if bok {
					bs = bv.String()
				}
				out = append(out, fmt.Sprintf("dbi %s key %q: %s vs %s", d, k, as, bs))
			}
		}
	}
	return out
}

func eqBytes(a, b []byte) bool { return bytes.Equal(a, b) }
