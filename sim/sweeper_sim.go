package lssim

import (
	"context"
	"fmt"
	"sort"
	"strings"
	"time"

	"github.com/PowerDNS/lightningstream/config"
	"github.com/PowerDNS/lightningstream/lmdbenv"
	"github.com/PowerDNS/lightningstream/syncer/sweeper"
	"github.com/PowerDNS/lmdb-go/lmdb"
	"github.com/c2h5oh/datasize"
	"github.com/sirupsen/logrus"
)

// sweeper-sim: exactly one pass of the real tomb sweeper over a real LMDB
// with thousands of entries, chopped into write-lock slices by the scheduler
// (the limitscanner deadline hook), with an application committing between
// the slices, biased to the key the sweeper will resume at.

func runSweeperSim(env *RunEnv) {
	sim, t := env.Sim, env.Tape
	native := t.Choose("sw-mode", 2) == 0
	days := pick(t, "sw-days", float32(0.5), 1, 2, 0.25)
	conf := config.Sweeper{
		Enabled:         true,
		RetentionDays:   days,
		LockDuration:    time.Hour, // slices end when the scheduler says so
		ReleaseDuration: pick(t, "sw-release", 10*time.Millisecond, 0, time.Second),
	}
	retention := time.Duration(float64(days) * float64(24*time.Hour))
	dir := env.Root + "/sweep"
	e, err := lmdbenv.NewWithOptions(dir, lmdbenv.Options{Create: true, MapSize: 256 * datasize.MB, EnvFlags: lmdb.NoSync | lmdb.NoMetaSync})
	if err != nil {
		env.Res.HarnessErr = err.Error()
		return
	}
	defer e.Close()

	// populate
	ndbi := 1 + t.Choose("sw-ndbi", 3)
	expireP := pick(t, "sw-expire-p", 300, 80, 700)
	now0 := time.Now()
	cut0 := now0.Add(-retention)
	// retention_days is a float32 number of days: the configured period is
	// only defined to a few milliseconds, so entries within 50ms of the
	// cut-off are generated (they exercise the boundary) but not judged.
	const tol = 50 * time.Millisecond
	lattice := []time.Time{cut0.Add(-time.Hour), cut0.Add(-time.Second), cut0.Add(-time.Nanosecond), cut0, cut0.Add(10 * time.Second), cut0.Add(time.Hour), cut0.Add(-2 * time.Hour)}
	type dbiSpec struct {
		app, hdr string // application DBI (non-native), DBI with headers
		n        int
	}
	var specs []dbiSpec
	for i := 1; i <= ndbi; i++ {
		n := pick(t, "sw-size", 1200, 150, 2500, 3600)
		if native {
			specs = append(specs, dbiSpec{hdr: fmt.Sprintf("d%d", i), n: n})
		} else {
			specs = append(specs, dbiSpec{app: fmt.Sprintf("d%d", i), hdr: fmt.Sprintf("%sd%d", shadowPrefix, i), n: n})
		}
	}
	markerRun := pick(t, "sw-run", 1, 8, 64) // runs of adjacent identical markers
	err = e.Update(func(txn *lmdb.Txn) error {
		for _, sp := range specs {
			hd, err := txn.OpenDBI(sp.hdr, lmdb.Create)
			if err != nil {
				return err
			}
			var ad lmdb.DBI
			if sp.app != "" {
				if ad, err = txn.OpenDBI(sp.app, lmdb.Create); err != nil {
					return err
				}
			}
			runLeft := 0
			var runTS time.Time
			// headers with extension blocks (header_extra_padding_block, or
			// written by other software): the marker flag sits in the same
			// place, the value is just longer than 24 bytes
			extN := 0
			if t.Choose("sw-padded", 3) == 2 {
				extN = 1 + t.Choose("sw-extn", 2)
			}
			for i := 0; i < sp.n; i++ {
				key := []byte(fmt.Sprintf("k%06d", i*3))
				var val []byte
				if runLeft > 0 {
					runLeft--
					val = MakeHdr(uint64(runTS.UnixNano()), 7, 1, extN, nil)
				} else if t.Chance("sw-marker", 400) {
					runTS = lattice[t.Choose("sw-ts", len(lattice))]
					runLeft = t.Choose("sw-runlen", markerRun)
					val = MakeHdr(uint64(runTS.UnixNano()), 7, 1, extN, nil)
				} else {
					ts := lattice[t.Choose("sw-ts", len(lattice))]
					val = MakeHdr(uint64(ts.UnixNano()), 7, 0, extN, []byte(fmt.Sprintf("v%d", i)))
					if sp.app != "" {
						if err := txn.Put(ad, key, []byte(fmt.Sprintf("v%d", i)), 0); err != nil {
							return err
						}
					}
				}
				if err := txn.Put(hd, key, val, 0); err != nil {
					return err
				}
			}
		}
		return nil
	})
	if err != nil {
		env.Res.HarnessErr = err.Error()
		return
	}
	before, err := DumpEnv(e)
	if err != nil {
		env.Res.HarnessErr = err.Error()
		return
	}
	sim.Logf("cfg sweeper-sim native=%v dbis=%d retention=%s release=%s expireP=%d run=%d entries=%v", native, ndbi, retention, conf.ReleaseDuration, expireP, markerRun, func() (o []int) {
		for _, s := range specs {
			o = append(o, s.n)
		}
		return
	}())

	slices := 0
	sim.OnExpired = func(tk *Task, point string) bool {
		if t.Chance("expire", expireP) {
			slices++
			return true
		}
		return false
	}
	me := &Node{Name: "me", sim: sim, Inc: 1, Running: true, Native: native, Env: e}
	ctx, cancel := context.WithCancel(context.WithValue(context.Background(), nodeKeyT{}, &incRef{node: me, inc: 1}))
	defer cancel()
	sw := sweeper.New(DBName, conf, e, logrus.StandardLogger(), native)
	var sweepErr error
	done := false
	sim.GoTask(me, "sweeper", "", func() {
		sweepErr = sw.VerifSweep(ctx)
		done = true
	})

	touched := map[string]bool{} // dbi/key the application changed during the pass
	// what the application last wrote there (nil = removed the key) and
	// whether the sweeper may legitimately remove that again
	appLast := map[string][]byte{}
	appExpired := map[string]bool{}
	appOps := 0
	var t0 time.Time
	started := false
	prevState := before
	for step := 0; step < 40000 && !done; step++ {
		parked := sim.Quiesce()
		if done {
			break
		}
		if len(parked) == 0 {
			sim.Idle(10 * time.Second)
			continue
		}
		tk := parked[0]
		if !started {
			// let some time pass, then start the pass: its cut-off is taken now
			sim.Sleep(time.Duration(1+t.Choose("sw-start-ms", 5000)) * time.Millisecond)
			t0 = time.Now()
			started = true
			sim.Release(tk)
			continue
		}
		// between two slices: the application may commit
		// (also right before and after each of the sweeper's transactions)
		if (tk.point == "sleep:wake" && t.Chance("sw-app", 600)) || (strings.HasPrefix(tk.point, "lmdb:") && t.Chance("sw-app-txn", 150)) {
			cur, _ := DumpEnv(e)
			// where will the sweeper resume? near the largest key among the
			// markers that disappeared in the last slice
			nops := 1 + t.Choose("sw-app-n", 4)
			err := e.Update(func(txn *lmdb.Txn) error {
				for i := 0; i < nops; i++ {
					sp := specs[t.Choose("sw-app-dbi", len(specs))]
					resume := resumeKeyGuess(prevState.DBIs[sp.hdr], cur.DBIs[sp.hdr])
					idx := resume/3 + t.Choose("sw-app-off", 7) - 3
					if t.Chance("sw-app-far", 200) {
						idx = t.Choose("sw-app-idx", sp.n)
					}
					if idx < 0 {
						idx = 0
					}
					keyN := idx * 3
					if t.Chance("sw-app-newkey", 250) {
						keyN += 1 + t.Choose("sw-app-between", 2) // a key that did not exist
					}
					key := []byte(fmt.Sprintf("k%06d", keyN))
					hd, err := txn.OpenDBI(sp.hdr, 0)
					if err != nil {
						return err
					}
					touched[sp.hdr+"/"+string(key)] = true
					nowTS := uint64(time.Now().UnixNano())
					kind := t.Choose("sw-app-kind", 4)
					if !native {
						// non-native: the application owns the plain DBI only
						ad, err := txn.OpenDBI(sp.app, 0)
						if err != nil {
							return err
						}
						touched[sp.app+"/"+string(key)] = true
						delete(touched, sp.hdr+"/"+string(key))
						if kind == 0 {
							_ = txn.Del(ad, key, nil)
						} else {
							if err := txn.Put(ad, key, []byte(fmt.Sprintf("app%d", appOps)), 0); err != nil {
								return err
							}
						}
						appOps++
						continue
					}
					id := sp.hdr + "/" + string(key)
					var nv []byte
					appExpired[id] = false
					switch kind {
					case 0: // mark deleted now (a marker younger than the pass itself)
						nv = MakeHdr(nowTS, uint64(txn.ID()), 1, 0, nil)
					case 1: // write a live value
						nv = MakeHdr(nowTS, uint64(txn.ID()), 0, 0, []byte(fmt.Sprintf("app%d", appOps)))
					case 2: // an expired marker written during the pass
						nv = MakeHdr(uint64(cut0.Add(-time.Minute).UnixNano()), uint64(txn.ID()), 1, 0, nil)
						appExpired[id] = true
					}
					if nv != nil {
						err = txn.Put(hd, key, nv, 0)
					} else { // really remove the key
						err = txn.Del(hd, key, nil)
						if lmdb.IsNotFound(err) {
							err = nil
						}
					}
					appLast[id] = nv
					if err != nil {
						return err
					}
					appOps++
				}
				return nil
			})
			if err != nil {
				env.Res.HarnessErr = "app commit: " + err.Error()
				return
			}
			sim.Logf("  app committed %d ops between slices", nops)
			prevState = cur
		}
		sim.Sleep(time.Duration(1+t.Choose("dus", 1000)) * time.Microsecond)
		sim.Release(tk)
	}
	sim.Quiesce()
	var viol []Violation
	violate := func(o, sig, msg string) {
		if len(viol) == 0 {
			viol = append(viol, Violation{"C13", o, sig, msg})
			sim.Logf("VIOLATION C13/%s [%s]: %s", o, sig, msg)
		}
	}
	if !done {
		violate("pass-ends", "pass-did-not-end", "the sweeper pass did not end within 40000 scheduler steps")
	} else if sweepErr != nil {
		violate("pass-ends", "pass-error", "the sweeper pass failed: "+sweepErr.Error())
	}
	after, _ := DumpEnv(e)
	cutoff := uint64(t0.Add(-retention).UnixNano())
	removed, kept := 0, 0
	if len(viol) == 0 {
		for _, name := range before.Names {
			bd := before.DBIs[name]
			am := map[string][]byte{}
			if ad := after.DBIs[name]; ad != nil {
				am = ad.Map()
			}
			isHdr := native || strings.HasPrefix(name, syncPrefix)
			for _, p := range bd.Pairs {
				if touched[name+"/"+string(p.K)] {
					continue
				}
				av, present := am[string(p.K)]
				if !isHdr {
					if !present || !eqBytes(av, p.V) {
						violate("app-data-untouched", "application-dbi-altered", fmt.Sprintf("non-native mode: application DBI %s key %q changed from %x to %x (present=%v)", name, p.K, p.V, av, present))
					}
					continue
				}
				h, _, err := ParseHdr(p.V)
				if err != nil {
					continue
				}
				expired := h.Flags&1 != 0 && h.TS < cutoff
				if d := int64(h.TS) - int64(cutoff); h.Flags&1 != 0 && d > -int64(tol) && d < int64(tol) {
					continue // boundary: not judged
				}
				if expired {
					if present {
						violate("expired-removed", "expired-marker-survived", fmt.Sprintf("DBI %s key %q: deletion marker with ts %d is older than the cut-off %d of the pass, was not touched during it, and is still there", name, p.K, h.TS, cutoff))
					}
					removed++
				} else {
					if !present {
						what := "live entry"
						if h.Flags&1 != 0 {
							what = "deletion marker not older than the cut-off"
						}
						violate("nothing-else", "kept-entry-removed", fmt.Sprintf("DBI %s key %q: %s (ts %d, cut-off %d) was removed by the sweeper", name, p.K, what, h.TS, cutoff))
					} else if !eqBytes(av, p.V) {
						violate("nothing-else", "kept-entry-altered", fmt.Sprintf("DBI %s key %q: value changed from %x to %x", name, p.K, p.V, av))
					}
					kept++
				}
			}
		}
	}
	// what the application wrote during the pass: a live entry or a marker
	// younger than the pass is never removed or altered, whatever the sweeper
	// does afterwards; an expired marker written during the pass may go or stay
	if len(viol) == 0 {
		for _, id := range sortedKeys(appLast) {
			want := appLast[id]
			p := strings.SplitN(id, "/", 2)
			var got []byte
			present := false
			if d := after.DBIs[p[0]]; d != nil {
				got, present = d.Map()[p[1]]
			}
			switch {
			case want == nil:
				if present {
					violate("nothing-else", "entry-invented", fmt.Sprintf("%s was removed by the application during the pass but exists afterwards (%x)", id, got))
				}
			case appExpired[id]:
				if present && !eqBytes(got, want) {
					violate("nothing-else", "kept-entry-altered", fmt.Sprintf("%s: the application wrote %x during the pass, afterwards it is %x", id, want, got))
				}
			default:
				if !present {
					violate("nothing-else", "concurrent-write-removed", fmt.Sprintf("%s: the application wrote %x (a live entry or a marker younger than the pass) during the pass and the sweeper removed it", id, want))
				} else if !eqBytes(got, want) {
					violate("nothing-else", "kept-entry-altered", fmt.Sprintf("%s: the application wrote %x during the pass, afterwards it is %x", id, want, got))
				}
			}
		}
	}
	// keys the sweeper invented
	if len(viol) == 0 {
		for _, name := range after.Names {
			bm := map[string][]byte{}
			if bd := before.DBIs[name]; bd != nil {
				bm = bd.Map()
			}
			for _, p := range after.DBIs[name].Pairs {
				if _, had := bm[string(p.K)]; !had && !touched[name+"/"+string(p.K)] {
					violate("nothing-else", "entry-invented", fmt.Sprintf("DBI %s key %q appeared during the pass", name, p.K))
				}
			}
		}
	}
	cancel()
	me.deadInc = 1
	for _, tk := range sim.Quiesce() {
		sim.Kill(tk)
	}
	sim.Quiesce()
	env.Res.Violations = viol
	env.Res.SimMs = int64(sim.Now() / time.Millisecond)
	env.Res.Counts = map[string]int{"slices": slices, "app_ops": appOps, "expired_removed": removed, "kept": kept}
	env.Res.Nontrivial = slices > 0 && removed > 0
	_ = sort.Strings
}

// resumeKeyGuess estimates the numeric part of the key the sweeper will
// resume at: the largest key that disappeared between two observations.
func resumeKeyGuess(prev, cur *DBIState) int {
	if prev == nil || cur == nil {
		return 0
	}
	cm := cur.Map()
	best := 0
	for _, p := range prev.Pairs {
		if _, ok := cm[string(p.K)]; !ok {
			var n int
			fmt.Sscanf(string(p.K), "k%d", &n)
			if n > best {
				best = n
			}
		}
	}
	return best
}

func init() {
	RegisterProfile(&Profile{Name: "sweeper-sim", Property: "C13", Run: runSweeperSim})
}
