package lssim

import (
	"fmt"
	"strings"
	"time"

	"github.com/PowerDNS/lmdb-go/lmdb"
)

// The application is not Lightning Stream code. It is simulated by the
// driver committing real LMDB write transactions at scheduler-chosen points.

type OpKind int

const (
	OpPut OpKind = iota
	OpDel
)

type AppOp struct {
	DBI      string
	DBIFlags uint // flags to create the DBI with (shadow mode only)
	Key      []byte
	Kind     OpKind
	Val      []byte
	TS       uint64 // native mode: timestamp the application writes
	Extra    int    // native mode: number of extension blocks in the header
}

func (o AppOp) String() string {
	k := "put"
	if o.Kind == OpDel {
		k = "del"
	}
	return fmt.Sprintf("%s %s/%q=%q ts=%d", k, o.DBI, o.Key, o.Val, o.TS)
}

// Commit applies the ops in one LMDB write transaction, the way a real
// application would: native mode writes headers (deletion = marker with
// empty value), shadow mode writes plain values and really deletes.
func (n *Node) Commit(ops []AppOp) (txnID int64, err error) {
	err = n.Env.Update(func(txn *lmdb.Txn) error {
		txnID = int64(txn.ID())
		for _, op := range ops {
			dbi, err := txn.OpenDBI(op.DBI, lmdb.Create|op.DBIFlags)
			if err != nil {
				return err
			}
			if n.Native {
				var val []byte
				if op.Kind == OpDel {
					val = MakeHdr(op.TS, uint64(txnID), 1, 0, op.Val) // op.Val is normally empty
				} else {
					val = MakeHdr(op.TS, uint64(txnID), 0, op.Extra, op.Val)
				}
				if err := txn.Put(dbi, op.Key, val, 0); err != nil {
					return err
				}
			} else {
				if op.Kind == OpDel {
					err := txn.Del(dbi, op.Key, nil)
					if err != nil && !lmdb.IsNotFound(err) {
						return err
					}
				} else {
					if err := txn.Put(dbi, op.Key, op.Val, 0); err != nil {
						return err
					}
				}
			}
		}
		return nil
	})
	var sb strings.Builder
	for i, op := range ops {
		if i > 0 {
			sb.WriteString("; ")
		}
		sb.WriteString(op.String())
	}
	n.sim.Logf("  app %s txn=%d %s err=%v", n.Name, txnID, sb.String(), err)
	return txnID, err
}

// Workload generates application transactions.
type Workload struct {
	DBIs      []string
	Keys      []string
	EmptyVal  int // permille of puts with an empty value
	SharedVal int // permille of puts with a value another writer may use too
	DelRate   int // permille of ops that are deletes
	MaxOps    int // ops per transaction
	TSLattice []uint64
	TSNow     int // permille of native writes stamped with the current time
	ExtraHdr  int // permille of native puts with extension blocks
	BigVal    int // permille of puts with a large value
	// NonMonotone allows a native application to write a timestamp that is
	// not above the version it overwrites locally (clock skew between hosts).
	NonMonotone bool
	// per-DBI overrides (fleet-shadow: integer-key and dupsort DBIs)
	DBIKeys  map[string][]string
	DBIFlags map[string]uint
	DupVals  []string // value pool for dupsort DBIs
	// DelPayload: permille of native deletes where the (misbehaving)
	// application sets the deleted flag but leaves payload bytes behind
	DelPayload int
	seq        int
}

// Gen draws one transaction for the node.
func (w *Workload) Gen(t *Tape, n *Node, now time.Time, stored Logical) []AppOp {
	overlay := map[string]uint64{}
	nops := 1 + t.Weighted("app-nops", opsWeights(w.MaxOps))
	var ops []AppOp
	for i := 0; i < nops; i++ {
		dbiName := w.DBIs[t.Choose("app-dbi", len(w.DBIs))]
		keys := w.Keys
		if ks, ok := w.DBIKeys[dbiName]; ok {
			keys = ks
		}
		op := AppOp{
			DBI:      dbiName,
			DBIFlags: w.DBIFlags[dbiName],
			Key:      []byte(keys[t.Choose("app-key", len(keys))]),
		}
		if t.Chance("app-del", w.DelRate) {
			op.Kind = OpDel
			if n.Native && t.Chance("app-del-payload", w.DelPayload) {
				op.Val = []byte("stale-payload")
			}
		} else {
			op.Kind = OpPut
			switch {
			case t.Chance("app-empty", w.EmptyVal):
				op.Val = []byte{}
			case t.Chance("app-shared", w.SharedVal):
				op.Val = []byte("x")
			default:
				w.seq++
				op.Val = []byte(fmt.Sprintf("%s.%d", n.Name, w.seq))
				if t.Chance("app-big", w.BigVal) {
					pad := 100 << t.Choose("app-bigsz", 8)
					op.Val = append(op.Val, []byte(strings.Repeat("p", pad))...)
				}
			}
		}
		if n.Native {
			lattice := w.TSLattice
			if !w.NonMonotone {
				// a well-behaved application stamps above what it overwrites
				ok := op.DBI + "/" + string(op.Key)
				cur, present := overlay[ok]
				if !present {
					if v, has := stored[op.DBI][string(op.Key)]; has {
						cur, present = v.TS, true
					}
				}
				if present {
					lattice = nil
					for _, l := range w.TSLattice {
						if l > cur {
							lattice = append(lattice, l)
						}
					}
				}
			}
			if len(lattice) == 0 || t.Chance("app-tsnow", w.TSNow) {
				op.TS = uint64(now.UnixNano())
			} else {
				op.TS = lattice[t.Choose("app-ts", len(lattice))]
			}
			overlay[op.DBI+"/"+string(op.Key)] = op.TS
			if op.Kind == OpPut && t.Chance("app-extra", w.ExtraHdr) {
				// extension block counts across the uint8/uint16 boundaries
				op.Extra = []int{1, 2, 3, 1, 2, 255, 256, 8191, 8192, 8193, 65535}[t.Weighted("app-extran", []int{30, 20, 10, 10, 10, 4, 4, 3, 4, 3, 2})]
			}
		}
		ops = append(ops, op)
	}
	return ops
}

func opsWeights(max int) []int {
	if max < 1 {
		max = 1
	}
	w := make([]int, max)
	for i := range w {
		w[i] = 1 << (max - 1 - i)
	}
	return w
}
