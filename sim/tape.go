package lssim

import (
	"encoding/json"
	"hash/fnv"
	"math/rand/v2"
	"os"
)

// Draw is one recorded decision: a choice of V in [0,N) for purpose K.
type Draw struct {
	K string `json:"k"`
	N int    `json:"n"`
	V int    `json:"v"`
}

// Tape is the single source of nondeterminism of a run. Every choice made by
// the simulator (configuration, workload, schedule, faults) is drawn through
// Choose. In record mode the values come from a PCG stream seeded by the run
// seed; in replay mode they come from a recorded tape, with exhausted or
// out-of-range entries reading as 0, which is by construction the simplest
// choice everywhere (first task, no fault, smallest argument).
type Tape struct {
	rng    *rand.Rand
	replay []Draw
	strict bool // replay: kinds must match (used to detect nondeterminism)
	pos    int
	Rec    []Draw
	// Mismatch is set when a strict replay saw a different kind or range
	Mismatch string
}

func NewTape(seed uint64) *Tape {
	return &Tape{rng: rand.New(rand.NewPCG(seed, 0x9e3779b97f4a7c15))}
}

func NewReplayTape(draws []Draw, strict bool) *Tape {
	return &Tape{replay: draws, strict: strict}
}

func (t *Tape) Replaying() bool { return t.rng == nil }

// Choose returns a value in [0,n). n<=1 returns 0 without consuming a draw.
func (t *Tape) Choose(kind string, n int) int {
	if n <= 1 {
		return 0
	}
	v := 0
	if t.rng != nil {
		v = t.rng.IntN(n)
	} else if t.pos < len(t.replay) {
		d := t.replay[t.pos]
		if t.strict && (d.K != kind || d.N != n) && t.Mismatch == "" {
			t.Mismatch = "replay mismatch at draw " + itoa(t.pos) + ": tape has " + d.K + "/" + itoa(d.N) + ", run asks " + kind + "/" + itoa(n)
		}
		if d.V >= 0 && d.V < n {
			v = d.V
		}
	}
	t.pos++
	t.Rec = append(t.Rec, Draw{K: kind, N: n, V: v})
	return v
}

// Chance returns true with probability permille/1000. The value 0 of the
// underlying draw maps to false, so that a zeroed tape never injects.
func (t *Tape) Chance(kind string, permille int) bool {
	if permille <= 0 {
		return false
	}
	if permille >= 1000 {
		return true
	}
	v := t.Choose(kind, 1000)
	return v >= 1000-permille
}

// Range returns a value in [lo,hi].
func (t *Tape) Range(kind string, lo, hi int) int {
	if hi <= lo {
		return lo
	}
	return lo + t.Choose(kind, hi-lo+1)
}

// Weighted picks an index with the given integer weights. Index 0 is the
// simplest choice.
func (t *Tape) Weighted(kind string, weights []int) int {
	total := 0
	for _, w := range weights {
		total += w
	}
	if total <= 0 {
		return 0
	}
	v := t.Choose(kind, total)
	for i, w := range weights {
		if v < w {
			return i
		}
		v -= w
	}
	return len(weights) - 1
}

func itoa(i int) string {
	b, _ := json.Marshal(i)
	return string(b)
}

// SubSeed derives a run seed from the batch seed, the profile and an index.
func SubSeed(seed uint64, profile string, index int) uint64 {
	h := fnv.New64a()
	var b [8]byte
	for i := 0; i < 8; i++ {
		b[i] = byte(seed >> (8 * i))
	}
	h.Write(b[:])
	h.Write([]byte(profile))
	for i := 0; i < 8; i++ {
		b[i] = byte(uint64(index) >> (8 * i))
	}
	h.Write(b[:])
	return h.Sum64()
}

// ReplayFile is what is written for a violation and read back by replay.
type ReplayFile struct {
	Property  string   `json:"property"`
	Profile   string   `json:"profile"`
	Seed      uint64   `json:"seed"`
	RunSeed   uint64   `json:"run_seed"`
	Index     int      `json:"index"`
	Oracle    string   `json:"oracle"`
	Signature string   `json:"signature"`
	Violation string   `json:"violation"`
	LogHash   string   `json:"log_hash"`
	Tape      []Draw   `json:"tape"`
	Events    []string `json:"events,omitempty"`
	Minimised bool     `json:"minimised"`
	OrigDraws int      `json:"orig_draws"`
	BySeed    bool     `json:"by_seed,omitempty"`
	Race      bool     `json:"race,omitempty"`
	// Depth is the tier depth the run was generated with (1 quick, 2
	// thorough: some runs draw larger configurations).
	Depth int `json:"depth,omitempty"`
}

func WriteReplay(path string, rf *ReplayFile) error {
	b, err := json.MarshalIndent(rf, "", " ")
	if err != nil {
		return err
	}
	return os.WriteFile(path, b, 0o644)
}

func ReadReplay(path string) (*ReplayFile, error) {
	b, err := os.ReadFile(path)
	if err != nil {
		return nil, err
	}
	var rf ReplayFile
	if err := json.Unmarshal(b, &rf); err != nil {
		return nil, err
	}
	return &rf, nil
}
