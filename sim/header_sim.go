package lssim

import (
	"bytes"
	"context"
	"encoding/binary"
	"fmt"
	"time"

	"github.com/PowerDNS/lightningstream/lmdbenv"
	"github.com/PowerDNS/lightningstream/lmdbenv/header"
	"github.com/PowerDNS/lightningstream/snapshot"
	"github.com/PowerDNS/lightningstream/snapshot/gogosnapshot"
	"github.com/PowerDNS/lightningstream/syncer"
	"github.com/PowerDNS/lmdb-go/lmdb"
	"github.com/c2h5oh/datasize"
)

// header-sim (C14, "for all byte strings as stored values"): a native DBI
// holds arbitrary byte strings as stored values - well-formed headers with
// and without extension blocks, values that are too short, other header
// versions, extension counts that exceed the bytes present, plain bytes - and
// the real LoadOnce merges a peer's snapshot that has entries for exactly
// those keys, older, equal and newer than what the stored bytes look like.
//
//   - a malformed stored value that the merge has to look at is rejected with
//     an error and the LMDB is left exactly as it was (never misread);
//   - over a well-formed stored value the merge gives the last-writer-wins
//     result, the application value of a value with extension blocks being
//     what follows all blocks, and whatever is written is well-formed.
func runHeaderSim(env *RunEnv) {
	sim, t := env.Sim, env.Tape
	e, err := lmdbenv.NewWithOptions(env.Root+"/hdr", lmdbenv.Options{Create: true, MapSize: 64 * datasize.MB, EnvFlags: lmdb.NoSync | lmdb.NoMetaSync})
	if err != nil {
		env.Res.HarnessErr = err.Error()
		return
	}
	defer e.Close()
	var viol []Violation
	violate := func(o, sig, msg string) {
		if len(viol) == 0 {
			viol = append(viol, Violation{"C14", o, sig, msg})
			sim.Logf("VIOLATION C14/%s [%s]: %s", o, sig, msg)
		}
	}
	c, lc := DefaultConf("victim", true)
	s, err := syncer.New(DBName, e, NewSimBucket(sim), c, lc, syncer.Options{})
	if err != nil {
		env.Res.HarnessErr = err.Error()
		return
	}
	sim.Quiesce()
	deregisterHealth()
	base := uint64(time.Now().UnixNano())
	rounds := 2 + t.Choose("hs-rounds", 5)
	merges, rejected := 0, 0
	for r := 0; r < rounds && len(viol) == 0; r++ {
		// stored values
		type stored struct {
			key  string
			raw  []byte
			ok   bool // well-formed
			why  string
			h    Hdr
			app  []byte
			peer *gogosnapshot.KV
		}
		nkeys := 1 + t.Choose("hs-nkeys", 4)
		var keys []*stored
		for i := 0; i < nkeys; i++ {
			st := &stored{key: fmt.Sprintf("k%d", i)}
			ts := base + uint64(t.Choose("hs-ts", 5))*1000
			appv := []byte(fmt.Sprintf("stored-%d-%d", r, i))
			switch t.Weighted("hs-kind", []int{4, 3, 3, 3, 2, 2, 1}) {
			case 0: // well-formed, no extension
				st.raw = MakeHdr(ts, 7, byte(t.Choose("hs-del", 2)), 0, appv)
				if st.raw[17]&1 != 0 {
					st.raw = st.raw[:hdrMin]
				}
			case 1: // well-formed with extension blocks written by others
				st.raw = MakeHdr(ts, 7, 0, 1+t.Choose("hs-extra", 4), appv)
			case 2: // too short (incl. 8..23 bytes that look like a timestamp)
				full := MakeHdr(ts, 7, 0, 0, appv)
				st.raw = full[:t.Choose("hs-short", hdrMin)]
				if len(st.raw) == 0 {
					st.raw = full[:8] // LMDB in native mode: keep it non-empty
				}
			case 3: // another header version
				st.raw = MakeHdr(ts, 7, 0, 0, appv)
				st.raw[16] = byte(1 + t.Choose("hs-version", 255))
			case 4: // claims extension blocks that are not (all) there
				tail := [][]byte{nil, []byte("x"), []byte("1234567"), []byte("12345678"), []byte("123456789abcdef")}[t.Choose("hs-claim-tail", 5)]
				st.raw = MakeHdr(ts, 7, 0, 0, tail)
				claim := []int{1, 2, 3, 9000, 65535}[t.Choose("hs-claim", 5)]
				if 8*claim <= len(tail) {
					claim = len(tail)/8 + 1
				}
				binary.BigEndian.PutUint16(st.raw[22:24], uint16(claim))
			case 5: // plain application bytes without any header
				st.raw = []byte("plain application value, thirty-odd bytes long")[:8+t.Choose("hs-plain", 38)]
			case 6: // a huge timestamp in front of garbage
				st.raw = append(bytes.Repeat([]byte{0xff}, 8), []byte("garbage")...)
			}
			st.h, st.app, err = ParseHdr(st.raw)
			st.ok = err == nil
			if err != nil {
				st.why = err.Error()
			}
			keys = append(keys, st)
		}
		if err := e.Update(func(txn *lmdb.Txn) error {
			dbi, err := txn.OpenDBI("d1", lmdb.Create)
			if err != nil {
				return err
			}
			if err := txn.Drop(dbi, false); err != nil {
				return err
			}
			for _, st := range keys {
				if err := txn.Put(dbi, []byte(st.key), st.raw, 0); err != nil {
					return err
				}
			}
			return nil
		}); err != nil {
			env.Res.HarnessErr = "populate: " + err.Error()
			return
		}
		// the peer's snapshot: entries for a subset of the keys
		snap := &gogosnapshot.Snapshot{FormatVersion: 3, CompatVersion: 1}
		snap.Meta.DatabaseName = DBName
		snap.Meta.InstanceID = "peer"
		snap.Meta.TimestampNano = base + 10000
		d := &gogosnapshot.DBI{Name: "d1"}
		touchesBad := ""
		for _, st := range keys {
			if !t.Chance("hs-peer-has", 700) {
				continue
			}
			// relative to what the first eight stored bytes look like
			var look uint64
			if len(st.raw) >= 8 {
				look = binary.BigEndian.Uint64(st.raw[:8])
			}
			pts := []uint64{1, base - 5000, base + 2500, base + 9000, look - 1, look, look + 1}[t.Choose("hs-peer-ts", 7)]
			if pts == 0 {
				pts = 1
			}
			kv := gogosnapshot.KV{Key: []byte(st.key), TimestampNano: pts}
			if t.Chance("hs-peer-del", 200) {
				kv.Flags = 1
			} else {
				kv.Value = []byte(fmt.Sprintf("peer-%d-%s", r, st.key))
			}
			d.Entries = append(d.Entries, kv)
			st.peer = &d.Entries[len(d.Entries)-1]
			if !st.ok && touchesBad == "" {
				touchesBad = fmt.Sprintf("%s = %x (%s)", st.key, st.raw, st.why)
			}
		}
		snap.Databases = []*gogosnapshot.DBI{d}
		for _, st := range keys { // pointers into d.Entries moved while appending
			st.peer = nil
		}
		for i := range d.Entries {
			for _, st := range keys {
				if st.key == string(d.Entries[i].Key) {
					st.peer = &d.Entries[i]
				}
			}
		}
		blob, err := RefEncode(snap)
		if err != nil {
			panic(err)
		}
		loaded, err := snapshot.LoadData(blob)
		if err != nil {
			env.Res.HarnessErr = "the reference snapshot does not load: " + err.Error()
			return
		}
		before, _ := DumpEnv(e)
		sim.Sleep(time.Millisecond)
		upd := snapshot.Update{Snapshot: loaded, NameInfo: snapshot.NameInfo{Kind: snapshot.KindSnapshot, InstanceID: "peer", FullName: fmt.Sprintf("h%d", r)}}
		_, _, lerr := s.LoadOnce(context.Background(), e, "peer", upd, header.TxnID(before.LastTxnID))
		after, _ := DumpEnv(e)
		sim.Logf("  round %d keys=%d peer-entries=%d touches-malformed=%v -> err=%v", r, nkeys, len(d.Entries), touchesBad != "", lerr)
		if touchesBad != "" {
			rejected++
			if lerr == nil {
				violate("malformed-rejected", "malformed-stored-value-accepted", "the snapshot has an entry for a key whose stored value is malformed: "+touchesBad+"; LoadOnce reported success instead of an error")
				break
			}
			if after.Fingerprint() != before.Fingerprint() {
				violate("malformed-rejected", "failed-merge-left-traces", "LoadOnce failed on a malformed stored value but the LMDB changed: "+firstDiff(before, after))
			}
			continue
		}
		if lerr != nil {
			violate("well-formed-read", "well-formed-value-refused", fmt.Sprintf("every stored value the merge had to look at is well-formed, but LoadOnce failed: %v", lerr))
			break
		}
		merges++
		got := after.DBIs["d1"].Map()
		for _, st := range keys {
			g := got[st.key]
			if st.peer == nil {
				if !bytes.Equal(g, st.raw) {
					violate("untouched", "unrelated-value-changed", fmt.Sprintf("%s was not in the snapshot but changed from %x to %x", st.key, st.raw, g))
				}
				continue
			}
			// last writer wins; on a tie the stored value stays unless the
			// tie-break prefers the incoming deletion (not judged here)
			if st.peer.TimestampNano == st.h.TS {
				continue
			}
			if st.peer.TimestampNano < st.h.TS {
				if !bytes.Equal(g, st.raw) {
					violate("well-formed-read", "older-entry-changed-stored-bytes", fmt.Sprintf("%s: the snapshot entry (ts %d) is older than the stored value (ts %d) but the stored bytes changed from %x to %x", st.key, st.peer.TimestampNano, st.h.TS, st.raw, g))
				}
				continue
			}
			h, app, perr := ParseHdr(g)
			if perr != nil {
				violate("well-formed", "unparsable", fmt.Sprintf("%s: LoadOnce wrote %x: %v", st.key, g, perr))
				continue
			}
			wantDel := st.peer.Flags&1 != 0
			if h.TS != st.peer.TimestampNano || (h.Flags&1 != 0) != wantDel || h.Flags&^1 != 0 || h.Reserved != [4]byte{} ||
				(!wantDel && !bytes.Equal(app, st.peer.Value)) || (wantDel && len(app) != 0) {
				violate("well-formed", "wrong-value-written", fmt.Sprintf("%s: the newer snapshot entry (ts %d del=%v val=%q) was stored as %x", st.key, st.peer.TimestampNano, wantDel, st.peer.Value, g))
			}
		}
	}
	env.Res.Violations = viol
	env.Res.Counts = map[string]int{"merges": merges, "malformed_rounds": rejected}
	env.Res.Nontrivial = merges+rejected > 0
}

func init() {
	RegisterProfile(&Profile{Name: "header-sim", Property: "C14", Run: runHeaderSim})
}
