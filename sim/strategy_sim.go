package lssim

import (
	"bytes"
	"encoding/binary"
	"errors"
	"fmt"
	"io"
	"sort"
	"strings"

	"github.com/PowerDNS/lightningstream/lmdbenv"
	"github.com/PowerDNS/lightningstream/lmdbenv/strategy"
	"github.com/PowerDNS/lmdb-go/lmdb"
	"github.com/c2h5oh/datasize"
)

// strategy-sim: seeded operation sequences against one LMDB DBI and an
// in-memory reference map. Operations: the three update strategies the
// syncer uses, driven by a scripted iterator whose merge / clean decisions
// (keep, replace, delete) are drawn per key; aborted transactions; a full
// map; unsorted input. No scheduler or clock is involved: this is the
// model-conformance half of the technique (seeded op/fault sequences,
// reference model, shrinking, replay).

type decision int

const (
	decKeep decision = iota
	decReplace
	decDelete
)

type scriptIt struct {
	keys   [][]byte
	merge  map[string]decision
	clean  decision // for keys not in the input: one decision, or per key below
	cleanK map[string]decision
	newVal map[string][]byte
	pos    int
	cur    []byte
}

func (it *scriptIt) Next() ([]byte, error) {
	if it.pos >= len(it.keys) {
		return nil, io.EOF
	}
	it.cur = it.keys[it.pos]
	it.pos++
	return it.cur, nil
}

func (it *scriptIt) Merge(old []byte) ([]byte, error) {
	switch it.merge[string(it.cur)] {
	case decKeep:
		if len(old) == 0 {
			return nil, nil
		}
		return old, nil
	case decReplace:
		return it.newVal[string(it.cur)], nil
	}
	return nil, nil
}

// cleanFor must be a function of the stored value only (Clean is not told
// the key): the decision is derived from the value's first byte.
func (it *scriptIt) Clean(old []byte) ([]byte, error) {
	d := it.clean
	switch d {
	case decKeep:
		return old, nil
	case decReplace:
		return append([]byte("C"), old...), nil
	}
	return nil, nil
}

func runStrategySim(env *RunEnv) {
	sim, t := env.Sim, env.Tape
	smallMap := t.Choose("st-smallmap", 6) == 5
	mapSize := 64 * datasize.MB
	if smallMap {
		mapSize = 96 * datasize.KB
	}
	e, err := lmdbenv.NewWithOptions(env.Root+"/strat", lmdbenv.Options{Create: true, MapSize: mapSize, EnvFlags: lmdb.NoSync | lmdb.NoMetaSync})
	if err != nil {
		env.Res.HarnessErr = err.Error()
		return
	}
	defer e.Close()
	var viol []Violation
	violate := func(o, sig, msg string) {
		if len(viol) == 0 {
			viol = append(viol, Violation{"C19", o, sig, msg})
			sim.Logf("VIOLATION C19/%s [%s]: %s", o, sig, msg)
		}
	}
	keyKind := t.Choose("st-keykind", 4) // 0 bytes, 1 uint32, 2 uint64, 3 long byte keys
	var flags uint
	if keyKind == 1 || keyKind == 2 {
		flags = 0x08 // MDB_INTEGERKEY
	}
	// key universe
	var universe [][]byte
	switch keyKind {
	case 0:
		for _, s := range []string{"a", "aa", "ab", "b", "\x00", "\x00\x00", "\xff", "a\x00", "a\xff", "key", "key1", "key10", "key2", "z"} {
			universe = append(universe, []byte(s))
		}
	case 1:
		for _, v := range []uint32{0, 1, 2, 255, 256, 65535, 65536, 1 << 31, 1<<31 + 1, 1<<32 - 1, 3, 0x01000000} {
			b := make([]byte, 4)
			binary.LittleEndian.PutUint32(b, v)
			universe = append(universe, b)
		}
	case 2:
		for _, v := range []uint64{0, 1, 255, 256, 1 << 31, 1 << 32, 1<<32 + 1, 1 << 63, 1<<64 - 1, 0x0100000000000000, 7} {
			b := make([]byte, 8)
			binary.LittleEndian.PutUint64(b, v)
			universe = append(universe, b)
		}
	case 3:
		p := strings.Repeat("p", 500)
		for _, s := range []string{p, p + "a", p + "b", p[:499], p + strings.Repeat("\xff", 11), p + strings.Repeat("\x00", 11), "q"} {
			universe = append(universe, []byte(s))
		}
	}
	less := func(a, b []byte) bool {
		switch keyKind {
		case 1:
			return binary.LittleEndian.Uint32(a) < binary.LittleEndian.Uint32(b)
		case 2:
			return binary.LittleEndian.Uint64(a) < binary.LittleEndian.Uint64(b)
		}
		return bytes.Compare(a, b) < 0
	}
	model := map[string][]byte{}
	dump := func() (map[string][]byte, []string) {
		out := map[string][]byte{}
		var order []string
		_ = e.View(func(txn *lmdb.Txn) error {
			dbi, err := txn.OpenDBI("t", 0)
			if err != nil {
				return nil
			}
			c, _ := txn.OpenCursor(dbi)
			defer c.Close()
			for {
				k, v, err := c.Get(nil, nil, lmdb.Next)
				if err != nil {
					break
				}
				out[string(k)] = v
				order = append(order, string(k))
			}
			return nil
		})
		return out, order
	}
	// In half of the runs the process has used the strategies before, on a
	// DBI of another environment that has the same handle number but the
	// other key order: nothing of that may stick (per-handle caches).
	if t.Choose("st-prevlife", 2) == 1 {
		pe, err := lmdbenv.NewWithOptions(env.Root+"/strat-prev", lmdbenv.Options{Create: true, MapSize: 8 * datasize.MB, EnvFlags: lmdb.NoSync | lmdb.NoMetaSync})
		if err == nil {
			other := flags ^ 0x08
			_ = pe.Update(func(txn *lmdb.Txn) error {
				dbi, err := txn.OpenDBI("t", lmdb.Create|other)
				if err != nil {
					return err
				}
				k1, k2 := []byte{1, 0, 0, 0}, []byte{0, 1, 0, 0} // 1 and 256 as little-endian uint32; in byte order 256 sorts first
				if other&0x08 == 0 {
					k1, k2 = k2, k1
				}
				in := [][]byte{k1, k2}
				it := &scriptIt{keys: in, merge: map[string]decision{string(k1): decReplace, string(k2): decReplace},
					newVal: map[string][]byte{string(k1): []byte("p1"), string(k2): []byte("p2")}, clean: decKeep}
				_ = strategy.IterUpdate(txn, dbi, it)
				it2 := &scriptIt{keys: in, merge: it.merge, newVal: it.newVal, clean: decKeep}
				_ = strategy.Update(txn, dbi, it2)
				return nil
			})
			pe.Close()
		}
	}
	// create the DBI
	if err := e.Update(func(txn *lmdb.Txn) error { _, err := txn.OpenDBI("t", lmdb.Create|flags); return err }); err != nil {
		env.Res.HarnessErr = err.Error()
		return
	}
	sim.Logf("cfg strategy-sim keykind=%d smallmap=%v", keyKind, smallMap)
	nops := 3 + t.Choose("st-nops", 10)
	errAbort := errors.New("abort requested by the harness")
	seq := 0
	applied := 0
	for op := 0; op < nops && len(viol) == 0; op++ {
		kind := t.Weighted("st-op", []int{30, 40, 10, 12}) // update, iterupdate, emptyput, raw put
		if kind == 3 {
			// the application stores something directly (incl. empty values)
			k := universe[t.Choose("st-rawkey", len(universe))]
			seq++
			v := []byte(fmt.Sprintf("raw%d", seq))
			if t.Chance("st-rawempty", 300) {
				v = []byte{}
			}
			err := e.Update(func(txn *lmdb.Txn) error {
				dbi, _ := txn.OpenDBI("t", 0)
				return txn.Put(dbi, k, v, 0)
			})
			if err == nil {
				model[string(k)] = v
			}
			sim.Logf("  raw put %x=%q err=%v", k, v, err)
			continue
		}
		// input keys
		n := t.Choose("st-nin", len(universe)+1)
		perm := append([][]byte(nil), universe...)
		for i := len(perm) - 1; i > 0; i-- {
			j := t.Choose("st-shuf", i+1)
			perm[i], perm[j] = perm[j], perm[i]
		}
		in := perm[:n]
		sorted := true
		unsortedOn := kind == 1 && n >= 2 && t.Chance("st-unsorted", 120)
		if kind != 0 || t.Chance("st-sort-update", 500) {
			sort.Slice(in, func(i, j int) bool { return less(in[i], in[j]) })
		}
		if unsortedOn {
			i := t.Choose("st-swap", n-1)
			in[i], in[i+1] = in[i+1], in[i]
			sorted = false
		}
		if kind == 1 && n >= 2 && sorted && t.Chance("st-dupkey", 60) {
			in[1] = in[0] // a repeated key violates the required strict order
			sorted = false
			// keep the rest sorted
		}
		it := &scriptIt{keys: in, merge: map[string]decision{}, newVal: map[string][]byte{}, clean: decision(t.Choose("st-clean", 3))}
		for _, k := range in {
			it.merge[string(k)] = decision(t.Choose("st-merge", 3))
			seq++
			val := []byte(fmt.Sprintf("v%d", seq))
			if smallMap && t.Chance("st-big", 300) {
				val = bytes.Repeat([]byte("B"), 20000)
			}
			it.newVal[string(k)] = val
		}
		abort := t.Chance("st-abort", 150)
		// expected result
		exp := map[string][]byte{}
		for k, v := range model {
			exp[k] = v
		}
		inSet := map[string]bool{}
		for _, k := range in {
			inSet[string(k)] = true
		}
		applyMerge := func(k string, oldPresent bool) {
			switch it.merge[k] {
			case decKeep:
				if !oldPresent || len(exp[k]) == 0 {
					// keep of an absent (or empty) value: the iterator returns nil = no entry
					delete(exp, k)
				}
			case decReplace:
				exp[k] = it.newVal[k]
			case decDelete:
				delete(exp, k)
			}
		}
		name := []string{"Update", "IterUpdate", "EmptyPut"}[kind]
		switch kind {
		case 0:
			for _, kb := range in {
				_, present := exp[string(kb)]
				applyMerge(string(kb), present)
			}
		case 1:
			for k, v := range model {
				if inSet[k] {
					continue
				}
				switch it.clean {
				case decReplace:
					exp[k] = append([]byte("C"), v...)
				case decDelete:
					delete(exp, k)
				}
			}
			for _, kb := range in {
				_, present := model[string(kb)]
				applyMerge(string(kb), present)
			}
		case 2:
			exp = map[string][]byte{}
			for _, kb := range in {
				if it.merge[string(kb)] == decReplace {
					exp[string(kb)] = it.newVal[string(kb)]
				}
			}
		}
		var opErr error
		err := e.Update(func(txn *lmdb.Txn) error {
			dbi, err := txn.OpenDBI("t", 0)
			if err != nil {
				return err
			}
			switch kind {
			case 0:
				opErr = strategy.Update(txn, dbi, it)
			case 1:
				opErr = strategy.IterUpdate(txn, dbi, it)
			case 2:
				opErr = strategy.EmptyPut(txn, dbi, it)
			}
			if opErr != nil {
				return opErr
			}
			if abort {
				return errAbort
			}
			return nil
		})
		got, order := dump()
		desc := fmt.Sprintf("op %d %s keys=%x merge=%v clean=%d abort=%v sorted=%v", op, name, in, it.merge, it.clean, abort, sorted)
		sim.Logf("  %s -> err=%v", desc, err)
		// cursor order must be the DBI's own order
		for i := 1; i < len(order); i++ {
			if !less([]byte(order[i-1]), []byte(order[i])) {
				violate("key-order", "dbi-order-broken", desc+": cursor order of the DBI is not its key order")
			}
		}
		want := exp
		if err != nil {
			want = model // failed or aborted: unchanged
			isFull := strings.Contains(err.Error(), "MDB_MAP_FULL")
			switch {
			case errors.Is(err, errAbort), isFull:
			case !sorted && errors.Is(opErr, strategy.ErrNotSorted):
				sim.Probe("c19-unsorted-rejected")
			case sorted:
				violate("valid-input-accepted", "valid-input-rejected", desc+": valid input was rejected: "+err.Error())
			default:
				violate("unexpected-error", "other-error", desc+": "+err.Error())
			}
		} else if !sorted && kind == 1 {
			violate("unsorted-rejected", "unsorted-input-accepted", desc+": input violating the required order was not rejected")
		}
		if len(viol) == 0 && !sameMap(got, want) {
			violate("content", "wrong-content", fmt.Sprintf("%s: DBI holds %s, the iterator's decisions prescribe %s (before: %s)", desc, fmtMap(got), fmtMap(want), fmtMap(model)))
		}
		if err == nil {
			model = exp
			applied++
		}
	}
	env.Res.Violations = viol
	env.Res.Counts = map[string]int{"ops": nops, "applied": applied}
	env.Res.Nontrivial = applied >= 2
}

func sameMap(a, b map[string][]byte) bool {
	if len(a) != len(b) {
		return false
	}
	for k, v := range a {
		w, ok := b[k]
		if !ok || !bytes.Equal(v, w) {
			return false
		}
	}
	return true
}

func fmtMap(m map[string][]byte) string {
	var ks []string
	for k := range m {
		ks = append(ks, k)
	}
	sort.Strings(ks)
	var sb strings.Builder
	sb.WriteString("{")
	for _, k := range ks {
		v := m[k]
		if len(k) > 12 {
			fmt.Fprintf(&sb, "%x..(%d)=", k[:4], len(k))
		} else {
			fmt.Fprintf(&sb, "%x=", k)
		}
		if len(v) > 16 {
			fmt.Fprintf(&sb, "%q..(%d) ", v[:8], len(v))
		} else {
			fmt.Fprintf(&sb, "%q ", v)
		}
	}
	sb.WriteString("}")
	return sb.String()
}

func init() {
	RegisterProfile(&Profile{Name: "strategy-sim", Property: "C19", Run: runStrategySim})
}
