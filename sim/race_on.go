//go:build race

package lssim

import "runtime"

// The scheduler hands control between goroutines through channels. Those
// channel operations must not create happens-before edges for the race
// detector, or every run would look race-free. Only the scheduler's own
// synchronisation is hidden; the program's own synchronisation still counts.
func raceOff() { runtime.RaceDisable() }
func raceOn()  { runtime.RaceEnable() }

const raceBuild = true
