package lssim

import (
	"context"
	"errors"
	"fmt"
	"regexp"
	"runtime"
	"sort"
	"strconv"
	"strings"
	"sync"
	"time"

	"github.com/PowerDNS/lightningstream/snapshot/storage"
	"github.com/PowerDNS/lightningstream/utils/climit"
	"github.com/PowerDNS/lightningstream/utils/topics"
	"github.com/PowerDNS/simpleblob/backends/memory"
)

// conc-sim (C17, deadlock part): API-level schedules over utils/topics,
// utils/climit and snapshot/storage with real goroutines OUTSIDE the
// synctest bubble (a goroutine waiting for a sync.Mutex is invisible to the
// bubble). Every API call of the schedule runs in an actor goroutine; after
// each step the driver waits until every actor has finished or is parked in a
// blocking state (goroutine dump), then takes the next decision from the
// tape. A goroutine that is still blocked after everything was closed,
// drained and released is positive evidence of a wedge, reported with the
// states of the goroutines involved.

type actor struct {
	name     string
	gid      uint64
	done     bool
	panicked string
	mu       sync.Mutex
	// statement-level scheduling (conc-inst): the yield the actor waits at
	parkedAt string
	resume   chan struct{}
}

type actors struct {
	mu   sync.Mutex
	list []*actor
	log  func(string, ...any)
	// conc-inst: the packages under test are instrumented with a yield
	// before every statement; actors park there and the tape decides who
	// takes the next step
	inst     bool
	t        *Tape
	settling bool
	apiLevel bool // this run: every call runs to its end or to a blocking point before the next one is issued
	steps    int
	overrun  bool
	unstable bool // quiescence was not reached within the cap: no verdict
}

// instActors maps goroutine ids to actors while a conc-inst run is active.
var instActors sync.Map

// parkActor is called from the yield hook for goroutines that are not tasks
// of the bubble scheduler.
func parkActor(point string) {
	v, ok := instActors.Load(gid())
	if !ok {
		return
	}
	a := v.(*actor)
	a.mu.Lock()
	a.parkedAt = point
	a.mu.Unlock()
	<-a.resume
}

func (as *actors) parked() []*actor {
	var out []*actor
	as.mu.Lock()
	for _, a := range as.list {
		a.mu.Lock()
		if !a.done && a.parkedAt != "" {
			out = append(out, a)
		}
		a.mu.Unlock()
	}
	as.mu.Unlock()
	sort.Slice(out, func(i, j int) bool { return out[i].name < out[j].name })
	return out
}

func (a *actor) step() {
	a.mu.Lock()
	a.parkedAt = ""
	a.mu.Unlock()
	a.resume <- struct{}{}
}

const maxInstSteps = 20000

// quiesce waits until every actor is done, blocked or parked at a yield. In
// conc-inst it then lets the tape decide whether one of the parked actors
// takes its next statement (most of the time) or stays where it is while the
// schedule goes on; settle() runs everybody to the end.
func (as *actors) quiesce() map[*actor]string {
	for {
		b := as.waitStable()
		if !as.inst {
			return b
		}
		ps := as.parked()
		for _, a := range ps {
			delete(b, a) // waiting for the scheduler, not blocked
		}
		if len(ps) == 0 {
			return b
		}
		if as.steps >= maxInstSteps {
			as.overrun = true
			return b
		}
		if !as.settling && !as.apiLevel && !as.t.Chance("ci-step", 850) {
			return b
		}
		a := ps[as.t.Choose("ci-which", len(ps))]
		as.steps++
		if as.log != nil {
			as.log("    step %s @%s", a.name, a.parkedAt)
		}
		a.step()
	}
}

// settle lets every parked actor run until nobody is parked any more.
func (as *actors) settle() map[*actor]string {
	as.settling = true
	defer func() { as.settling = false }()
	return as.quiesce()
}

func (as *actors) spawn(name string, fn func()) *actor {
	a := &actor{name: name}
	as.mu.Lock()
	as.list = append(as.list, a)
	as.mu.Unlock()
	ready := make(chan struct{})
	a.resume = make(chan struct{})
	go func() {
		a.mu.Lock()
		a.gid = gid()
		a.mu.Unlock()
		if as.inst {
			instActors.Store(a.gid, a)
			defer instActors.Delete(a.gid)
		}
		close(ready)
		defer func() {
			r := recover()
			a.mu.Lock()
			if r != nil {
				a.panicked = fmt.Sprint(r)
			}
			a.done = true
			a.mu.Unlock()
		}()
		fn()
	}()
	<-ready
	return a
}

var goroutineHdr = regexp.MustCompile(`(?m)^goroutine (\d+) \[([^\]]+)\]:`)

func goroutineStates() map[uint64]string {
	buf := make([]byte, 1<<20)
	n := runtime.Stack(buf, true)
	out := map[uint64]string{}
	for _, m := range goroutineHdr.FindAllStringSubmatch(string(buf[:n]), -1) {
		id, _ := strconv.ParseUint(m[1], 10, 64)
		out[id] = m[2]
	}
	return out
}

func blockedState(st string) bool {
	st = strings.SplitN(st, ",", 2)[0]
	switch st {
	case "chan send", "chan receive", "select", "sync.Mutex.Lock", "sync.RWMutex.RLock", "sync.RWMutex.Lock", "semacquire", "sync.Cond.Wait", "sleep", "chan send (nil chan)", "chan receive (nil chan)", "select (no cases)":
		return true
	}
	return false
}

// quiesce waits until every actor is done or blocked (stable over several
// polls) and returns the blocked ones with their state.
func (as *actors) waitStable() map[*actor]string {
	stable := 0
	var last string
	var blocked map[*actor]string
	// (up to a minute: on a loaded machine a runnable actor may wait long
	// for a CPU; giving up earlier could report a goroutine as blocked that
	// is merely waiting for one that has not run yet)
	for i := 0; i < 400000; i++ {
		st := goroutineStates()
		blocked = map[*actor]string{}
		all := true
		var sb strings.Builder
		as.mu.Lock()
		for _, a := range as.list {
			a.mu.Lock()
			d, g := a.done, a.gid
			a.mu.Unlock()
			if d {
				continue
			}
			s, ok := st[g]
			if !ok {
				all = false // finishing right now
				continue
			}
			if !blockedState(s) {
				all = false
				continue
			}
			blocked[a] = s
			fmt.Fprintf(&sb, "%s=%s;", a.name, s)
		}
		as.mu.Unlock()
		if all && sb.String() == last {
			stable++
			if stable >= 4 {
				return blocked
			}
		} else {
			stable = 0
		}
		last = sb.String()
		time.Sleep(150 * time.Microsecond)
	}
	as.unstable = true
	return blocked
}

func (as *actors) panics() []string {
	var out []string
	as.mu.Lock()
	defer as.mu.Unlock()
	for _, a := range as.list {
		a.mu.Lock()
		if a.panicked != "" {
			out = append(out, a.name+": "+a.panicked)
		}
		a.mu.Unlock()
	}
	return out
}

func describeBlocked(b map[*actor]string) string {
	var parts []string
	for a, s := range b {
		parts = append(parts, a.name+" ["+s+"]")
	}
	sort.Strings(parts)
	return strings.Join(parts, ", ")
}

func blockedKinds(b map[*actor]string) string {
	set := map[string]bool{}
	for a, s := range b {
		kind := strings.SplitN(a.name, "#", 2)[0]
		set[kind+":"+strings.SplitN(s, ",", 2)[0]] = true
	}
	return strings.ReplaceAll(strings.Join(sortedKeys(set), "+"), " ", "_")
}

var storageUsed bool

func runConcSim(env *RunEnv) { runConc(env, false) }

// runConcInst is the same schedule generator in the binary whose copies of
// utils/climit, utils/topics and snapshot/storage carry a yield before
// every statement (build.sh inst): the tape also decides, statement by
// statement, which goroutine inside those primitives moves next.
func runConcInst(env *RunEnv) { runConc(env, true) }

func runConc(env *RunEnv, inst bool) {
	sim, t := env.Sim, env.Tape
	var viol []Violation
	violate := func(o, sig, msg string) {
		if len(viol) == 0 {
			viol = append(viol, Violation{"C17", o, sig, msg})
			sim.Logf("VIOLATION C17/%s [%s]: %s", o, sig, msg)
		}
	}
	as := &actors{inst: inst, t: t, log: sim.Logf}
	if inst {
		// a third of the runs are API-level schedules (what conc-sim does),
		// the others interleave statement by statement
		as.apiLevel = t.Chance("ci-api-level", 330)
	}
	nact := 0
	scenario := t.Choose("cc-scenario", 3)
	if scenario == 2 && storageUsed {
		scenario = 0 // the global storage can only be exercised once per process
	}
	switch scenario {
	case 0: // topics
		tp := topics.New[int]()
		type subst struct {
			sub    *topics.Subscription[int]
			closed bool
		}
		var subs []*subst
		var smu sync.Mutex
		getSub := func(s *subst) *topics.Subscription[int] {
			smu.Lock()
			defer smu.Unlock()
			return s.sub
		}
		var cancels []context.CancelFunc
		var releases []chan struct{}
		nops := 3 + t.Choose("cc-nops", 8)
		val := 0
		sim.Logf("cfg conc-sim scenario=topics ops=%d", nops)
		for i := 0; i < nops && len(viol) == 0; i++ {
			op := t.Weighted("cc-top-op", []int{25, 25, 20, 20, 10, 15})
			switch op {
			case 0: // subscribe (waits while a publish is in flight)
				sl := t.Choose("cc-sendlast", 2) == 1
				s := &subst{}
				subs = append(subs, s)
				nact++
				as.spawn(fmt.Sprintf("subscribe#%d", len(subs)-1), func() {
					sub := tp.Subscribe(sl)
					smu.Lock()
					s.sub = sub
					smu.Unlock()
				})
				sim.Logf("  subscribe #%d sendLast=%v", len(subs)-1, sl)
			case 1: // publish (blocks until every subscriber took the value)
				val++
				v := val
				nact++
				as.spawn(fmt.Sprintf("publish#%d", v), func() { tp.Publish(v) })
				sim.Logf("  publish %d", v)
			case 2: // a subscriber takes one value
				if len(subs) == 0 {
					continue
				}
				k := t.Choose("cc-which", len(subs))
				s := subs[k]
				if getSub(s) == nil {
					continue // still subscribing
				}
				ctx, cancel := context.WithCancel(context.Background())
				cancels = append(cancels, cancel)
				nact++
				as.spawn(fmt.Sprintf("next#%d.%d", k, i), func() { _, _ = getSub(s).Next(ctx) })
				sim.Logf("  next on #%d", k)
			case 3: // a subscriber closes, at any moment
				if len(subs) == 0 {
					continue
				}
				k := t.Choose("cc-which", len(subs))
				s := subs[k]
				if getSub(s) == nil {
					continue
				}
				s.closed = true
				nact++
				as.spawn(fmt.Sprintf("close#%d.%d", k, i), func() { getSub(s).Close() })
				sim.Logf("  close #%d", k)
			case 5: // a consumer that reads the subscription's channel until it is closed
				if len(subs) == 0 {
					continue
				}
				k := t.Choose("cc-which", len(subs))
				s := subs[k]
				if getSub(s) == nil || s.closed {
					continue // using a subscription after closing it is the caller's mistake
				}
				slow := t.Choose("cc-consume-slow", 3) // takes n values, then is busy until released
				busy := make(chan struct{})
				releases = append(releases, busy)
				nact++
				// The consumer holds the channel from the moment it exists
				// (asking a subscription for its channel after somebody
				// closed it is the caller's mistake, like any use after
				// Close): taken here, not inside the actor, where the
				// statement scheduler could delay it past a later Close.
				ch := getSub(s).Channel()
				as.spawn(fmt.Sprintf("consume#%d.%d", k, i), func() {
					n := 0
					for range ch {
						n++
						if n == slow {
							<-busy // busy elsewhere: not receiving for a while
						}
					}
				})
				sim.Logf("  consume #%d until closed (busy after %d values)", k, slow)
			case 4: // Handle with a callback that fails on its n-th value
				failAt := 1 + t.Choose("cc-failat", 3)
				ctx, cancel := context.WithCancel(context.Background())
				cancels = append(cancels, cancel)
				nact++
				as.spawn(fmt.Sprintf("handle#%d", i), func() {
					n := 0
					_ = tp.Handle(ctx, func(int) error {
						n++
						if n >= failAt {
							return errors.New("callback failed")
						}
						return nil
					})
				})
				sim.Logf("  handle failing at value %d", failAt)
			}
			as.quiesce()
		}
		// wind down: every subscription is closed, every pending Next/Handle
		// is cancelled; afterwards nobody may be left blocked
		as.settle() // (conc-inst: calls still on their way finish first)
		for _, c := range cancels {
			c()
		}
		// several rounds: a subscription whose Subscribe call was still
		// waiting for a publish to finish exists only after an earlier round
		for round := 0; round < 3; round++ {
			for k, s := range subs {
				if !s.closed && getSub(s) != nil {
					s := s
					s.closed = true
					nact++
					as.spawn(fmt.Sprintf("close#%d.final", k), func() { getSub(s).Close() })
				}
			}
			as.settle()
		}
		// busy consumers come back to their channel: it must have been closed
		for _, r := range releases {
			close(r)
		}
		b := as.settle()
		if len(b) > 0 {
			violate("no-wedge", "blocked-after-close:"+blockedKinds(b), "after every subscription was closed and every pending receive cancelled these goroutines are still blocked: "+describeBlocked(b))
		}
	case 1: // climit
		limit := 1 + t.Choose("cc-limit", 3)
		cl := climit.New("ccdb", fmt.Sprintf("cc%d", runCounter), limit, nil)
		var mu sync.Mutex
		var tokens []*climit.Token
		held := map[*climit.Token]bool{}
		nops := 4 + t.Choose("cc-nops", 10)
		sim.Logf("cfg conc-sim scenario=climit limit=%d ops=%d", limit, nops)
		for i := 0; i < nops && len(viol) == 0; i++ {
			if t.Chance("cc-acquire", 550) {
				nact++
				as.spawn(fmt.Sprintf("acquire#%d", i), func() {
					tk := cl.Acquire()
					mu.Lock()
					tokens = append(tokens, tk)
					held[tk] = true
					mu.Unlock()
				})
				sim.Logf("  acquire")
			} else {
				mu.Lock()
				n := len(tokens)
				mu.Unlock()
				if n == 0 {
					continue
				}
				k := t.Choose("cc-tok", n)
				times := 1 + t.Choose("cc-times", 3) // released repeatedly, from different goroutines at once
				mu.Lock()
				tk := tokens[k]
				delete(held, tk)
				mu.Unlock()
				for j := 0; j < times; j++ {
					nact++
					as.spawn(fmt.Sprintf("release#%d.%d", i, j), func() { tk.Release() })
				}
				sim.Logf("  release token %d x%d", k, times)
			}
			as.quiesce()
			mu.Lock()
			h := len(held)
			mu.Unlock()
			if h > limit {
				violate("limit", "limit-exceeded", fmt.Sprintf("%d tokens held at once, the limit is %d", h, limit))
			}
		}
		// release everything: every waiting Acquire must come through
		as.settle() // (conc-inst: calls still on their way finish first)
		for round := 0; round < 50; round++ {
			mu.Lock()
			var hs []*climit.Token
			for tk := range held {
				hs = append(hs, tk)
			}
			for _, tk := range hs {
				delete(held, tk)
			}
			mu.Unlock()
			if len(hs) == 0 {
				break
			}
			for j, tk := range hs {
				tk := tk
				as.spawn(fmt.Sprintf("release-final#%d.%d", round, j), func() { tk.Release() })
			}
			as.settle()
		}
		b := as.settle()
		if len(b) > 0 {
			violate("no-wedge", "blocked-after-release:"+blockedKinds(b), "after every token was released these goroutines are still blocked: "+describeBlocked(b))
		}
		// repeated releases must not have created capacity
		if len(viol) == 0 {
			got := 0
			for j := 0; j < limit+1; j++ {
				nact++
				as.spawn(fmt.Sprintf("probe#%d", j), func() {
					tk := cl.Acquire()
					mu.Lock()
					got++
					held[tk] = true
					mu.Unlock()
				})
			}
			as.settle()
			mu.Lock()
			g := got
			mu.Unlock()
			if g != limit {
				violate("limit", "capacity-changed", fmt.Sprintf("after repeated releases %d tokens can be held at once, the limit is %d", g, limit))
			}
			mu.Lock()
			for tk := range held {
				tk.Release()
			}
			mu.Unlock()
			as.settle()
		}
	case 2: // global storage
		storageUsed = true
		st := memory.New()
		before := t.Choose("cc-get-before", 4)
		after := t.Choose("cc-get-after", 3)
		sim.Logf("cfg conc-sim scenario=storage getters-before=%d getters-after=%d", before, after)
		var mu sync.Mutex
		got := map[string]any{}
		getter := func(name string) {
			nact++
			as.spawn(name, func() {
				h := storage.GetGlobal()
				mu.Lock()
				got[name] = h
				mu.Unlock()
			})
		}
		for i := 0; i < before; i++ {
			getter(fmt.Sprintf("get-before#%d", i))
		}
		as.quiesce()
		nact++
		as.spawn("set", func() { storage.SetGlobal(st) })
		if t.Choose("cc-get-during", 2) == 1 {
			getter("get-during#0")
		}
		as.quiesce()
		for i := 0; i < after; i++ {
			getter(fmt.Sprintf("get-after#%d", i))
		}
		b := as.settle()
		if len(b) > 0 {
			violate("no-wedge", "blocked-after-set:"+blockedKinds(b), "after the global storage was set these callers are still blocked: "+describeBlocked(b))
		}
		mu.Lock()
		for name, h := range got {
			if h != any(st) && len(viol) == 0 {
				violate("storage-handle", "wrong-handle", fmt.Sprintf("%s received %v instead of the storage that was set", name, h))
			}
		}
		mu.Unlock()
	}
	if ps := as.panics(); len(ps) > 0 && len(viol) == 0 {
		sig := "panic:" + regexp.MustCompile(`[^A-Za-z]+`).ReplaceAllString(strings.SplitN(ps[0], ": ", 2)[1], "_")
		violate("no-panic", sig, "an actor panicked: "+strings.Join(ps, "; "))
	}
	if as.unstable {
		viol = nil
		env.Res.HarnessErr = "conc: the actors did not come to rest within a minute (overloaded machine?): no verdict"
	}
	if as.overrun && len(viol) == 0 {
		env.Res.HarnessErr = fmt.Sprintf("conc-inst: more than %d statement steps in one run", maxInstSteps)
	}
	env.Res.Violations = viol
	env.Res.Counts = map[string]int{"actors": nact, "scenario": scenario, "statement_steps": as.steps}
	env.Res.Nontrivial = nact >= 2
}

func init() {
	RegisterProfile(&Profile{Name: "conc-sim", Property: "C17", Run: runConcSim, NoBubble: true})
	RegisterProfile(&Profile{Name: "conc-inst", Property: "C17", Run: runConcInst, NoBubble: true})
}
