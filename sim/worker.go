package lssim

import (
	"bufio"
	"crypto/sha256"
	"encoding/json"
	"fmt"
	"os"
	"sort"
	"strconv"
	"strings"
	"testing"
	"time"
)

// Worker entry points, driven by environment variables from ./check.

type outLine struct {
	Type   string      `json:"type"`
	Run    *RunResult  `json:"run,omitempty"`
	Replay string      `json:"replay,omitempty"`
	Viol   *Violation  `json:"violation,omitempty"`
	Sample []string    `json:"sample,omitempty"`
	Info   interface{} `json:"info,omitempty"`
}

func envInt(name string, def int) int {
	if v := os.Getenv(name); v != "" {
		if i, err := strconv.Atoi(v); err == nil {
			return i
		}
	}
	return def
}

func envU64(name string, def uint64) uint64 {
	if v := os.Getenv(name); v != "" {
		if i, err := strconv.ParseUint(v, 10, 64); err == nil {
			return i
		}
	}
	return def
}

// checkedProperty is the property the current check decides. A profile
// normally serves one property; LSSIM_PROPERTY lets another check reuse it
// (C17 runs fleet profiles in the race build and only looks at C17 oracles).
var propertyOverride = os.Getenv("LSSIM_PROPERTY")

// simDepth: 1 = quick tier, 2 = thorough tier (a third of the fleet runs
// draw a larger configuration). Part of the replay file.
var simDepth = func() int {
	if os.Getenv("LSSIM_DEPTH") == "2" {
		return 2
	}
	return 1
}()

func checkedProperty(r *RunResult) string {
	if propertyOverride != "" {
		return propertyOverride
	}
	return r.Property
}

func sameClass(a, b Violation) bool {
	return a.Property == b.Property && a.Oracle == b.Oracle && a.Signature == b.Signature
}

// firstViolation returns the first violation of the profile's property.
func firstViolation(r *RunResult) *Violation {
	for i := range r.Violations {
		if r.Violations[i].Property == checkedProperty(r) {
			return &r.Violations[i]
		}
	}
	return nil
}

// Minimise shrinks a failing tape while the same violation class persists.
func Minimise(t *testing.T, prof *Profile, orig *RunResult, target Violation, maxTrials int, deadline time.Time) (*RunResult, int) {
	best := orig
	trials := 0
	trialFile := os.Getenv("LSSIM_TRIAL_FILE")
	try := func(cand []Draw) bool {
		if trials >= maxTrials || time.Now().After(deadline) {
			return false
		}
		trials++
		if trialFile != "" {
			// should this trial kill the process, the parent can replay it
			_ = WriteReplay(trialFile, &ReplayFile{Property: target.Property, Profile: prof.Name, RunSeed: orig.RunSeed, Index: orig.Index,
				Oracle: "process-crash", Tape: cand, Depth: simDepth})
		}
		r := RunOne(t, prof, NewReplayTape(cand, false), orig.RunSeed, orig.Index)
		if r.HarnessErr != "" {
			return false
		}
		v := firstViolation(r)
		if v == nil || !sameClass(*v, target) {
			return false
		}
		if nonZero(r.tape) >= nonZero(best.tape) && len(r.tape) >= len(best.tape) {
			return false
		}
		best = r
		return true
	}
	stop := func() bool { return trials >= maxTrials || time.Now().After(deadline) }
	zeroWhere := func(pred func(i int, d Draw) bool) bool {
		cand := append([]Draw(nil), best.tape...)
		changed := false
		for i := range cand {
			if cand[i].V != 0 && pred(i, cand[i]) {
				cand[i].V = 0
				changed = true
			}
		}
		return changed && try(cand)
	}
	// A. whole kinds at once (removes a fault kind or a config knob entirely)
	kinds := map[string]bool{}
	var kindList []string
	for _, d := range best.tape {
		if !kinds[d.K] {
			kinds[d.K] = true
			kindList = append(kindList, d.K)
		}
	}
	sort.Strings(kindList)
	for _, k := range kindList {
		if k == "run" || k == "act" {
			continue
		}
		zeroWhere(func(i int, d Draw) bool { return d.K == k })
		if stop() {
			return best, trials
		}
	}
	// B. shortest failing prefix (the remainder reads as zeros): binary search
	lo, hi := 0, len(best.tape)
	for lo < hi && !stop() {
		mid := (lo + hi) / 2
		if try(append([]Draw(nil), best.tape[:mid]...)) {
			hi = len(best.tape)
			if hi > mid {
				hi = mid
			}
		} else {
			lo = mid + 1
		}
	}
	// C. zero chunks, large to small
	for chunk := len(best.tape) / 2; chunk >= 1 && !stop(); chunk /= 2 {
		for start := 0; start < len(best.tape) && !stop(); start += chunk {
			s0, e0 := start, start+chunk
			zeroWhere(func(i int, d Draw) bool { return i >= s0 && i < e0 })
		}
	}
	// D. lower remaining values
	for i := 0; i < len(best.tape) && !stop(); i++ {
		if best.tape[i].V > 1 {
			cand := append([]Draw(nil), best.tape...)
			cand[i].V = cand[i].V / 2
			try(cand)
		}
	}
	return best, trials
}

func nonZero(t []Draw) int {
	n := 0
	for _, d := range t {
		if d.V != 0 {
			n++
		}
	}
	return n
}

func replayFileFor(r *RunResult, v Violation, seed uint64, minimised bool, orig int) *ReplayFile {
	return &ReplayFile{
		Property: v.Property, Profile: r.Profile, Seed: seed, RunSeed: r.RunSeed, Index: r.Index,
		Oracle: v.Oracle, Signature: v.Signature, Violation: v.Msg, LogHash: r.LogHash,
		Tape: r.tape, Events: r.log, Minimised: minimised, OrigDraws: orig, Depth: simDepth,
	}
}

// WorkerBatch runs a range of run indices of one profile.
func WorkerBatch(t *testing.T) {
	profName := os.Getenv("LSSIM_PROFILE")
	prof := profiles[profName]
	if prof == nil {
		t.Fatalf("unknown profile %q (have %v)", profName, ProfileNames())
	}
	seed := envU64("LSSIM_SEED", 1)
	from := envInt("LSSIM_FROM", 0)
	stride := envInt("LSSIM_STRIDE", 1)
	count := envInt("LSSIM_COUNT", 10)
	budget := time.Duration(envInt("LSSIM_BUDGET_S", 3600)) * time.Second
	replayDir := os.Getenv("LSSIM_REPLAY_DIR")
	samples := envInt("LSSIM_SAMPLES", 1)
	stopOnViol := envInt("LSSIM_STOP_ON_VIOLATION", 1) == 1
	out := os.Stdout
	if p := os.Getenv("LSSIM_OUT"); p != "" {
		f, err := os.Create(p)
		if err != nil {
			t.Fatal(err)
		}
		defer f.Close()
		out = f
	}
	w := bufio.NewWriter(out)
	defer w.Flush()
	emit := func(l outLine) {
		b, _ := json.Marshal(l)
		w.Write(b)
		w.WriteByte('\n')
		w.Flush()
	}
	t0 := time.Now()
	seenClass := map[string]bool{}
	knownClasses := map[string]bool{}
	for _, k := range strings.Split(os.Getenv("LSSIM_KNOWN"), ",") {
		if k != "" {
			knownClasses[k] = true
		}
	}
	for i := 0; i < count; i++ {
		if time.Since(t0) > budget {
			break
		}
		index := from + i*stride
		runSeed := SubSeed(seed, prof.Name, index)
		emit(outLine{Type: "start", Info: map[string]any{"index": index, "run_seed": runSeed}})
		if raceBuild {
			// marker for attributing race detector reports (stderr) to runs
			fmt.Fprintf(os.Stderr, "LSSIM-RUN profile=%s seed=%d index=%d run_seed=%d\n", prof.Name, seed, index, runSeed)
		}
		r := RunOne(t, prof, NewTape(runSeed), runSeed, index)
		if dir := os.Getenv("LSSIM_DUMP_LOGS"); dir != "" {
			// diagnosis only
			_ = os.WriteFile(fmt.Sprintf("%s/%s-%d.log", dir, prof.Name, index), []byte(strings.Join(r.log, "\n")), 0o644)
		}
		l := outLine{Type: "run", Run: r}
		if samples > 0 && r.Nontrivial && len(r.Violations) == 0 {
			samples--
			l.Sample = headTail(r.log, 60)
		}
		emit(l)
		if r.HarnessErr != "" {
			emit(outLine{Type: "harness-error", Info: r.HarnessErr})
			t.Errorf("harness error in %s index %d: %s", prof.Name, index, r.HarnessErr)
			return
		}
		if v := firstViolation(r); v != nil {
			class := v.Oracle + "/" + v.Signature
			if seenClass[class] {
				continue
			}
			seenClass[class] = true
			if dir := os.Getenv("LSSIM_SCRATCH"); dir != "" && os.Getenv("LSSIM_OUT") != "" {
				// one worker of a check minimises a class; the others only
				// count further occurrences
				lock := fmt.Sprintf("%s/class-%x.lock", dir, sha256.Sum256([]byte(prof.Name+"/"+class)))
				lf, err := os.OpenFile(lock, os.O_CREATE|os.O_EXCL|os.O_WRONLY, 0o644)
				if err != nil {
					continue
				}
				lf.Close()
			}
			path := fmt.Sprintf("%s/%s-%s-%d-%d.json", replayDir, v.Property, prof.Name, seed, index)
			if replayDir != "" {
				_ = WriteReplay(path+".orig", replayFileFor(r, *v, seed, false, len(r.tape)))
			}
			maxTrials := envInt("LSSIM_MIN_TRIALS", 3000)
			if knownClasses[class] || knownClasses["*"] {
				maxTrials = 0 // known finding: no need to minimise again
			}
			emit(outLine{Type: "minimising", Info: map[string]any{"index": index, "run_seed": runSeed}})
			min, trials := Minimise(t, prof, r, *v, maxTrials, time.Now().Add(time.Duration(envInt("LSSIM_MIN_S", 90))*time.Second))
			mv := firstViolation(min)
			if replayDir != "" {
				_ = WriteReplay(path, replayFileFor(min, *mv, seed, true, len(r.tape)))
				_ = os.Remove(path + ".orig")
			}
			if tf := os.Getenv("LSSIM_TRIAL_FILE"); tf != "" {
				_ = os.Remove(tf)
			}
			emit(outLine{Type: "minimised", Info: map[string]any{"index": index}})
			emit(outLine{Type: "violation", Viol: mv, Replay: path, Info: map[string]any{
				"index": index, "orig_draws": len(r.tape), "min_draws": len(min.tape), "min_nonzero": nonZero(min.tape), "trials": trials}})
			if stopOnViol {
				return
			}
		}
	}
	emit(outLine{Type: "done", Info: map[string]any{"wall_s": elapsed(t0)}})
}

func headTail(log []string, n int) []string {
	if len(log) <= n {
		return log
	}
	out := append([]string(nil), log[:n/2]...)
	out = append(out, fmt.Sprintf("... (%d lines omitted) ...", len(log)-n))
	return append(out, log[len(log)-n/2:]...)
}

// WorkerReplay re-executes a replay file and reports if it reproduces.
func WorkerReplay(t *testing.T) {
	path := os.Getenv("LSSIM_REPLAY")
	rf, err := ReadReplay(path)
	if err != nil {
		t.Fatal(err)
	}
	prof := profiles[rf.Profile]
	if prof == nil {
		t.Fatalf("unknown profile %q", rf.Profile)
	}
	if rf.Depth != 0 {
		simDepth = rf.Depth
	}
	if rf.Property != prof.Property {
		// recorded by a check that reuses the profile for another property
		propertyOverride = rf.Property
		if rf.Property == "C17" {
			keepHealth = true
		}
	}
	tape := NewReplayTape(rf.Tape, true)
	if rf.BySeed {
		tape = NewTape(rf.RunSeed)
	}
	if raceBuild {
		fmt.Fprintf(os.Stderr, "LSSIM-RUN profile=%s seed=%d index=%d run_seed=%d\n", prof.Name, rf.Seed, rf.Index, rf.RunSeed)
	}
	r := RunOne(t, prof, tape, rf.RunSeed, rf.Index)
	v := firstViolation(r)
	res := map[string]any{"log_hash": r.LogHash, "expected_log_hash": rf.LogHash, "mismatch": r.Mismatch, "harness_err": r.HarnessErr}
	reproduced := v != nil && v.Property == rf.Property && v.Oracle == rf.Oracle && v.Signature == rf.Signature
	exact := reproduced && r.LogHash == rf.LogHash && r.Mismatch == ""
	res["reproduced"] = reproduced
	res["exact"] = exact
	if v != nil {
		res["violation"] = v
	}
	b, _ := json.Marshal(res)
	fmt.Println("REPLAY-RESULT " + string(b))
	if os.Getenv("LSSIM_VERBOSE") != "" {
		for _, l := range r.log {
			fmt.Println(l)
		}
	}
}
