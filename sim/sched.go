package lssim

import (
	"context"
	"crypto/sha256"
	"encoding/hex"
	"fmt"
	"hash"
	"os"
	"runtime"
	"sort"
	"strconv"
	"strings"
	"sync"
	"sync/atomic"
	"testing/synctest"
	"time"

	"github.com/PowerDNS/lightningstream/utils/verifhook"
	"github.com/PowerDNS/lmdb-go/lmdb"
)

// Task is one goroutine of the system under test that the scheduler controls.
// It runs real code between two yield points; at a yield point it parks until
// the driver releases it.
type Task struct {
	ID        string
	Role      string
	Node      *Node
	Inc       int
	gid       uint64
	resume    chan resumeMsg
	point     string
	prevPoint string
	relPoint  string    // point the task was last released from (transaction boundaries "lmdb:*" do not count)
	relPrev   string    // point it had parked at before that
	relRaw    string    // point the task was last released from, including transaction boundaries
	relAt     time.Time // when it was released from relPoint
	openTxns  int       // top-level LMDB transactions this goroutine has open
	parked    bool
	exited    bool
	nPark     int
}

type resumeMsg struct{ die bool }

type nodeKeyT struct{}

// Sim is the scheduler state of one run. Exactly one Sim is current per
// process at any time.
type Sim struct {
	T *Tape

	mu    sync.Mutex
	tasks map[uint64]*Task
	byID  map[string]*Task
	wake  chan struct{}

	Step    int
	Seq     int // global event sequence number (one per event-log line)
	Start   time.Time
	log     []string
	logHash hash.Hash
	KeepLog bool

	// Hook handlers a profile may install
	OnInWriteTxn func(t *Task, ctx context.Context, point string)
	OnExpired    func(t *Task, point string) bool
	OnStart      func(t *Task)

	// Counters
	PointHits map[string]int
	Probes    map[string]int
	Faults    map[string]int
}

var cur atomic.Pointer[Sim]

// steadyPoints are the first yield points of the sync loop after its
// start-up phase: reaching one makes the incarnation "steady". (A positive
// list: the start-up phase also passes generic points such as sleep:wake.)
var steadyPoints = map[string]bool{"sync:after-startup-shadow": true, "sync:loop-top": true}

var traceOn = os.Getenv("LSSIM_TRACE") != ""

func init() {
	verifhook.StartFn = hookStart
	verifhook.YieldFn = hookYield
	verifhook.InWriteTxnFn = hookInWriteTxn
	verifhook.PickFn = hookPick
	verifhook.ExpiredFn = hookExpired
	verifhook.PreferDoneFn = func(ctx context.Context) bool { return cur.Load() != nil && ctx.Err() != nil }
	lmdb.TxnHook = hookTxn
}

func NewSim(t *Tape) *Sim {
	s := &Sim{
		T:         t,
		tasks:     map[uint64]*Task{},
		byID:      map[string]*Task{},
		wake:      make(chan struct{}, 1),
		logHash:   sha256.New(),
		PointHits: map[string]int{},
		Probes:    map[string]int{},
		Faults:    map[string]int{},
		Start:     time.Now(),
		KeepLog:   true,
	}
	return s
}

// Activate makes s the current simulation; Deactivate removes it.
func (s *Sim) Activate()   { cur.Store(s) }
func (s *Sim) Deactivate() { cur.CompareAndSwap(s, nil) }

// Now returns the simulated time since the start of the run.
func (s *Sim) Now() time.Duration { return time.Since(s.Start) }

// Logf appends a line to the event log. It never draws from the tape and
// never reads a real clock.
func (s *Sim) Logf(format string, args ...any) {
	line := fmt.Sprintf(format, args...)
	if traceOn {
		fmt.Fprintln(os.Stderr, line)
	}
	s.mu.Lock()
	s.Seq++
	s.logHash.Write([]byte(line))
	s.logHash.Write([]byte{'\n'})
	if s.KeepLog {
		s.log = append(s.log, line)
	}
	s.mu.Unlock()
}

func (s *Sim) Log() []string {
	s.mu.Lock()
	defer s.mu.Unlock()
	return append([]string(nil), s.log...)
}

func (s *Sim) LogHash() string {
	s.mu.Lock()
	defer s.mu.Unlock()
	return hex.EncodeToString(s.logHash.Sum(nil))
}

func (s *Sim) Probe(name string) {
	s.mu.Lock()
	s.Probes[name]++
	s.mu.Unlock()
}

func (s *Sim) Fault(name string) {
	s.mu.Lock()
	s.Faults[name]++
	s.mu.Unlock()
}

// gid returns the current goroutine id.
func gid() uint64 {
	var buf [64]byte
	n := runtime.Stack(buf[:], false)
	// "goroutine 123 [running]:..."
	b := buf[:n]
	const prefix = "goroutine "
	i := len(prefix)
	j := i
	for j < len(b) && b[j] >= '0' && b[j] <= '9' {
		j++
	}
	v, _ := strconv.ParseUint(string(b[i:j]), 10, 64)
	return v
}

func (s *Sim) lookup() *Task {
	g := gid()
	s.mu.Lock()
	t := s.tasks[g]
	s.mu.Unlock()
	return t
}

// Register makes the calling goroutine a scheduled task.
func (s *Sim) Register(node *Node, inc int, role, name string) *Task {
	g := gid()
	id := role
	if name != "" {
		id += ":" + name
	}
	if node != nil {
		id = node.Name + "/" + id + "#" + strconv.Itoa(inc)
	}
	s.mu.Lock()
	defer s.mu.Unlock()
	if t := s.tasks[g]; t != nil {
		return t
	}
	base := id
	for k := 2; s.byID[id] != nil; k++ {
		id = base + "~" + strconv.Itoa(k)
	}
	t := &Task{ID: id, Role: role, Node: node, Inc: inc, gid: g, resume: make(chan resumeMsg)}
	s.tasks[g] = t
	s.byID[id] = t
	return t
}

func hookStart(ctx context.Context, role, name string) {
	s := cur.Load()
	if s == nil {
		return
	}
	var ref *incRef
	if ctx != nil {
		ref, _ = ctx.Value(nodeKeyT{}).(*incRef)
	}
	if ref == nil {
		return // not a goroutine of a simulated node
	}
	t := s.Register(ref.node, ref.inc, role, name)
	if s.OnStart != nil {
		s.OnStart(t)
	}
	s.park(t, role+":start")
}

func hookYield(ctx context.Context, point string) {
	s := cur.Load()
	if s == nil {
		return
	}
	t := s.lookup()
	if t == nil {
		parkActor(point) // conc-inst actors (no-op for everybody else)
		return
	}
	s.park(t, point)
}

func hookInWriteTxn(ctx context.Context, point string) {
	s := cur.Load()
	if s == nil {
		return
	}
	t := s.lookup() // nil when the driver itself runs the transaction
	s.mu.Lock()
	s.PointHits[point]++
	s.mu.Unlock()
	if s.OnInWriteTxn != nil {
		s.OnInWriteTxn(t, ctx, point)
	}
}

func hookPick(point string, n int) int {
	s := cur.Load()
	if s == nil {
		return -1
	}
	id := "driver"
	if t := s.lookup(); t != nil {
		id = t.ID
	} else if v, ok := instActors.Load(gid()); ok {
		id = v.(*actor).name
	}
	v := s.T.Choose("pick:"+point, n)
	s.Logf("  pick %s %s -> %d/%d", id, point, v, n)
	return v
}

func hookExpired(point string) bool {
	s := cur.Load()
	if s == nil {
		return false
	}
	t := s.lookup()
	if t == nil {
		return false
	}
	if s.OnExpired != nil {
		return s.OnExpired(t, point)
	}
	return false
}

// hookTxn makes every top-level LMDB transaction boundary of a simulated
// goroutine a scheduling point: before the transaction begins (nothing is
// held) and after it has ended. A goroutine that already has a transaction
// open is never suspended (it may hold the write lock).
func hookTxn(ev lmdb.TxnEvent, write bool) {
	s := cur.Load()
	if s == nil {
		return
	}
	t := s.lookup()
	if t == nil {
		return
	}
	kind := "read"
	if write {
		kind = "write"
	}
	switch ev {
	case lmdb.TxnBeforeBegin:
		if t.openTxns == 0 {
			s.park(t, "lmdb:begin-"+kind)
		}
	case lmdb.TxnBegun:
		t.openTxns++
	case lmdb.TxnEnded:
		t.openTxns--
		if t.openTxns == 0 {
			s.park(t, "lmdb:end-"+kind)
		}
	}
}

// park suspends the calling task until the driver releases it.
func (s *Sim) park(t *Task, point string) {
	if t.Node != nil && t.Node.Dead(t) {
		s.markExited(t)
		runtime.Goexit()
	}
	if t.Role == "syncloop" && t.Node != nil && steadyPoints[point] {
		t.Node.steadyInc = t.Inc
	}
	raceOff()
	s.mu.Lock()
	t.prevPoint = t.point
	t.point = point
	t.parked = true
	t.nPark++
	s.PointHits[point]++
	s.mu.Unlock()
	select {
	case s.wake <- struct{}{}:
	default:
	}
	msg := <-t.resume
	raceOn()
	if msg.die {
		s.markExited(t)
		runtime.Goexit()
	}
}

func (s *Sim) markExited(t *Task) {
	s.mu.Lock()
	t.exited = true
	t.parked = false
	s.mu.Unlock()
}

// Quiesce waits until every goroutine of the bubble is durably blocked (or
// parked) and returns the parked tasks sorted by id.
func (s *Sim) Quiesce() []*Task {
	raceOff()
	synctest.Wait()
	raceOn()
	return s.parkedTasks()
}

func (s *Sim) parkedTasks() []*Task {
	s.mu.Lock()
	var out []*Task
	for _, t := range s.tasks {
		if t.parked {
			out = append(out, t)
		}
	}
	s.mu.Unlock()
	sort.Slice(out, func(i, j int) bool { return out[i].ID < out[j].ID })
	return out
}

// Release lets one parked task run until its next yield or block.
func (s *Sim) Release(t *Task) {
	s.mu.Lock()
	if !t.parked {
		s.mu.Unlock()
		panic("release of a task that is not parked: " + t.ID)
	}
	t.parked = false
	p := t.point
	t.relRaw = t.point
	if !strings.HasPrefix(t.point, "lmdb:") {
		t.relPoint = t.point
		t.relPrev = t.prevPoint
		t.relAt = time.Now()
	}
	s.mu.Unlock()
	s.Step++
	s.Logf("%d t=%s run %s @%s", s.Step, s.Now(), t.ID, p)
	raceOff()
	t.resume <- resumeMsg{}
	raceOn()
}

// Kill terminates a parked task at its yield point (crash).
func (s *Sim) Kill(t *Task) {
	s.mu.Lock()
	if !t.parked {
		s.mu.Unlock()
		return
	}
	t.parked = false
	s.mu.Unlock()
	raceOff()
	t.resume <- resumeMsg{die: true}
	raceOn()
}

// Idle blocks the driver until some task parks or d of simulated time has
// passed, whichever comes first. While the driver is blocked the fake clock
// jumps to the next timer. Returns true if a task parked.
func (s *Sim) Idle(d time.Duration) bool {
	if len(s.parkedTasks()) > 0 {
		return true
	}
	// drain a stale token
	select {
	case <-s.wake:
	default:
	}
	if len(s.parkedTasks()) > 0 {
		return true
	}
	tm := time.NewTimer(d)
	defer tm.Stop()
	raceOff()
	defer raceOn()
	select {
	case <-s.wake:
		return true
	case <-tm.C:
		return false
	}
}

// Sleep advances simulated time by d (other timers that fall in the interval
// fire and their tasks run to their next yield).
func (s *Sim) Sleep(d time.Duration) {
	if d <= 0 {
		return
	}
	raceOff()
	time.Sleep(d)
	raceOn()
}

// TasksOf returns all live (not exited) tasks of a node.
func (s *Sim) TasksOf(n *Node) []*Task {
	s.mu.Lock()
	defer s.mu.Unlock()
	var out []*Task
	for _, t := range s.tasks {
		if t.Node == n && !t.exited {
			out = append(out, t)
		}
	}
	sort.Slice(out, func(i, j int) bool { return out[i].ID < out[j].ID })
	return out
}

// TaskGids maps the goroutine ids of all tasks ever registered in this run
// to their task ids.
func (s *Sim) TaskGids() map[uint64]string {
	s.mu.Lock()
	defer s.mu.Unlock()
	out := map[uint64]string{}
	for gid, t := range s.tasks {
		out[gid] = t.ID
	}
	return out
}

func (t *Task) Point() string { return t.point }

// Parks is the number of times the task has parked at a yield point.
func (t *Task) Parks() int { return t.nPark }

// Parked reports whether the task is waiting at a yield point right now.
func (t *Task) Parked() bool { return t.parked }
