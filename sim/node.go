package lssim

import (
	"context"
	"fmt"
	"os"
	"sync"
	"time"

	"github.com/PowerDNS/lightningstream/config"
	"github.com/PowerDNS/lightningstream/lmdbenv"
	"github.com/PowerDNS/lightningstream/syncer"
	"github.com/PowerDNS/lightningstream/syncer/events"
	"github.com/PowerDNS/lmdb-go/lmdb"
	"github.com/c2h5oh/datasize"
	healthz "github.com/wojas/go-healthz"
)

const DBName = "db"

type incRef struct {
	node *Node
	inc  int
}

// Node is one simulated Lightning Stream instance: a real LMDB environment
// plus (while running) a real syncer.Syncer with all its goroutines.
type Node struct {
	Name   string
	Native bool
	sim    *Sim
	bucket *SimBucket
	Root   string // directory that holds the LMDB dirs of this node
	Dir    string
	Env    *lmdb.Env
	oldEnv []*lmdb.Env
	Conf   config.Config
	LC     config.LMDB
	Opt    syncer.Options
	MapSz  datasize.ByteSize

	Inc       int
	deadInc   int
	steadyInc int // incarnation whose sync loop has finished its start-up phase
	// StartedAt is the simulated time at which the current incarnation started
	StartedAt time.Duration
	// graceful cancellation (C17)
	cancelledInc int
	cancelledAt  time.Duration
	cancel       context.CancelFunc
	ctx          context.Context
	Syncer       *syncer.Syncer
	Running      bool

	mu           sync.Mutex
	syncReturned map[int]bool
	syncErr      map[int]error
	loaded       []LoadedEvent
	stored       []StoredEvent
	quit         chan struct{}
}

type LoadedEvent struct {
	Inc  int
	Name string
	At   time.Duration
}

type StoredEvent struct {
	Inc   int
	Name  string
	TxnID int64
	TS    uint64
	At    time.Duration
}

func NewNode(s *Sim, b *SimBucket, root, name string, native bool, conf config.Config, lc config.LMDB) (*Node, error) {
	n := &Node{
		Name: name, Native: native, sim: s, bucket: b, Root: root,
		Conf: conf, LC: lc,
		MapSz:        256 * datasize.MB,
		syncReturned: map[int]bool{},
		syncErr:      map[int]error{},
		quit:         make(chan struct{}),
	}
	if err := n.openEnv(); err != nil {
		return nil, err
	}
	return n, nil
}

var envSeq int

func (n *Node) openEnv() error {
	envSeq++
	dir := fmt.Sprintf("%s/%s-%d", n.Root, n.Name, envSeq)
	env, err := lmdbenv.NewWithOptions(dir, lmdbenv.Options{
		Create:   true,
		MapSize:  n.MapSz,
		EnvFlags: lmdb.NoSync | lmdb.NoMetaSync | lmdb.NoReadahead,
	})
	if err != nil {
		return err
	}
	n.Dir = dir
	n.Env = env
	return nil
}

// Dead reports if the task belongs to a crashed incarnation.
func (n *Node) Dead(t *Task) bool {
	return t.Inc <= n.deadInc
}

// Steady reports if the running incarnation has finished its start-up phase.
func (n *Node) Steady() bool { return n.Running && n.steadyInc == n.Inc }

// Start launches a new incarnation of the syncer on the current LMDB.
func (n *Node) Start() error {
	if n.Running {
		return fmt.Errorf("node %s already running", n.Name)
	}
	n.Inc++
	inc := n.Inc
	n.StartedAt = n.sim.Now()
	ctx := context.WithValue(context.Background(), nodeKeyT{}, &incRef{node: n, inc: inc})
	ctx, cancel := context.WithCancel(ctx)
	n.ctx, n.cancel = ctx, cancel
	ev := events.New()
	opt := n.Opt
	opt.Events = ev
	s, err := syncer.New(DBName, n.Env, n.bucket, n.Conf, n.LC, opt)
	if err != nil {
		return err
	}
	n.Syncer = s
	n.Running = true

	// Event recorders (harness goroutines, not scheduled tasks: they only
	// append to harness-private lists).
	subL := ev.UpdateLoaded.Subscribe(false)
	subS := ev.UpdateStored.Subscribe(false)
	chL, chS := subL.Channel(), subS.Channel()
	quit := n.quit
	go func() {
		for {
			select {
			case v := <-chL:
				n.mu.Lock()
				n.loaded = append(n.loaded, LoadedEvent{Inc: inc, Name: v.NameInfo.FullName, At: n.sim.Now()})
				n.mu.Unlock()
			case v := <-chS:
				n.mu.Lock()
				n.stored = append(n.stored, StoredEvent{Inc: inc, Name: v.NameInfo.BuildName(), TxnID: v.Meta.LmdbTxnID, TS: v.Meta.TimestampNano, At: n.sim.Now()})
				n.mu.Unlock()
			case <-quit:
				return
			}
		}
	}()

	n.sim.Logf("  node %s start inc=%d", n.Name, inc)
	go func() {
		returned := false
		var err error
		defer func() {
			n.mu.Lock()
			if returned {
				n.syncReturned[inc] = true
				n.syncErr[inc] = err
			}
			n.mu.Unlock()
		}()
		err = s.Sync(ctx)
		returned = true
	}()
	// Let the new incarnation run to its first yield, then remove the
	// health tracker ticker goroutines it registered (they only read
	// atomics, and would keep the bubble alive forever).
	n.sim.Quiesce()
	if !keepHealth {
		deregisterHealth()
	}
	return nil
}

// keepHealth leaves the health tracker goroutines of the newest incarnation
// running during a run (they only read atomics and never park); used by the
// race-build profiles so that the trackers take part in the race check. They
// are removed when the fleet is closed.
var keepHealth = os.Getenv("LSSIM_KEEP_HEALTH") != ""

func deregisterHealth() {
	for _, k := range []string{"store", "list", "load"} {
		healthz.Deregister(fmt.Sprintf("%s_storage_%s_failed_duration", DBName, k))
	}
	healthz.Deregister(fmt.Sprintf("%s_startup_in_progress", DBName))
}

// Crash stops the current incarnation at its current yield points: parked
// tasks terminate without running any further program code (deferred
// functions run), tasks blocked in timers or channels are woken through
// context cancellation and terminate at their next yield.
func (n *Node) Crash() {
	if !n.Running {
		return
	}
	n.sim.Logf("  node %s crash inc=%d", n.Name, n.Inc)
	n.deadInc = n.Inc
	n.Running = false
	n.cancel()
	for _, t := range n.sim.parkedTasks() {
		if t.Node == n {
			n.sim.Probe("crash-at:" + t.Role + "@" + t.point)
			n.sim.Kill(t)
		}
	}
	// Let cancelled goroutines unwind
	for i := 0; i < 20; i++ {
		ps := n.sim.Quiesce()
		killed := false
		for _, t := range ps {
			if t.Node == n && t.Inc <= n.deadInc {
				n.sim.Kill(t)
				killed = true
			}
		}
		if !killed {
			break
		}
	}
}

// Cancel cancels the context of the running incarnation without killing its
// tasks: this is a graceful stop; Sync is expected to return.
func (n *Node) Cancel() {
	if n.cancel != nil {
		n.cancelledInc = n.Inc
		n.cancelledAt = n.sim.Now()
		n.cancel()
	}
}

// ResetLMDB replaces the LMDB by a fresh, empty one (node must be stopped).
func (n *Node) ResetLMDB() error {
	if n.Running {
		return fmt.Errorf("node %s running", n.Name)
	}
	n.oldEnv = append(n.oldEnv, n.Env)
	n.sim.Logf("  node %s lmdb emptied", n.Name)
	return n.openEnv()
}

func (n *Node) SyncReturned(inc int) (bool, error) {
	n.mu.Lock()
	defer n.mu.Unlock()
	return n.syncReturned[inc], n.syncErr[inc]
}

func (n *Node) LoadedEvents() []LoadedEvent {
	n.mu.Lock()
	defer n.mu.Unlock()
	return append([]LoadedEvent(nil), n.loaded...)
}

func (n *Node) StoredEvents() []StoredEvent {
	n.mu.Lock()
	defer n.mu.Unlock()
	return append([]StoredEvent(nil), n.stored...)
}

// Close releases all resources of the node. All its tasks must be dead.
func (n *Node) Close() {
	select {
	case <-n.quit:
	default:
		close(n.quit)
	}
	for _, e := range append(n.oldEnv, n.Env) {
		if e != nil {
			e.Close()
		}
	}
	n.Env = nil
	n.oldEnv = nil
	_ = os.RemoveAll(n.Root + "/" + n.Name)
}

// DefaultConf returns the configuration used as a base for simulated nodes.
func DefaultConf(instance string, native bool) (config.Config, config.LMDB) {
	c := config.Config{
		Instance:                    instance,
		LMDBs:                       map[string]config.LMDB{},
		LMDBPollInterval:            time.Second,
		LMDBLogStatsInterval:        0,
		StoragePollInterval:         time.Second,
		StorageRetryInterval:        2 * time.Second,
		StorageRetryCount:           3,
		MemoryDownloadedSnapshots:   3,
		MemoryDecompressedSnapshots: 2,
	}
	lc := config.LMDB{SchemaTracksChanges: native}
	c.LMDBs[DBName] = lc
	return c, lc
}

func healthzDeregister(name string) { healthz.Deregister(name) }
