package lssim

import (
	"fmt"
	"sort"
	"strings"
	"time"

	"github.com/PowerDNS/lightningstream/snapshot/gogosnapshot"
	"github.com/PowerDNS/lmdb-go/lmdb"
)

type lmdbTxn = lmdb.Txn

const lmdbCreate = lmdb.Create

func pick[T any](t *Tape, kind string, vals ...T) T {
	return vals[t.Choose(kind, len(vals))]
}

// swarmBase draws the configuration of one fleet run. Index 0 of every choice
// is the simplest value, so that a zeroed tape gives the smallest world.
func swarmBase(t *Tape) FleetCfg {
	c := FleetCfg{}
	c.N = 2 + t.Weighted("cfg-n", []int{5, 3, 1})
	c.Native = t.Choose("cfg-mode", 2) == 0
	ndbi := 1 + t.Weighted("cfg-ndbi", []int{6, 3, 1})
	nkeys := 1 + t.Choose("cfg-nkeys", 5)
	w := Workload{}
	for i := 1; i <= ndbi; i++ {
		w.DBIs = append(w.DBIs, fmt.Sprintf("d%d", i))
	}
	for i := 1; i <= nkeys; i++ {
		w.Keys = append(w.Keys, fmt.Sprintf("k%d", i))
	}
	w.EmptyVal = pick(t, "cfg-empty", 0, 60, 200)
	w.SharedVal = pick(t, "cfg-shared", 0, 120)
	w.DelRate = pick(t, "cfg-del", 150, 300, 500)
	w.MaxOps = 1 + t.Choose("cfg-maxops", 4)
	if c.Native {
		switch t.Choose("cfg-ts", 3) {
		case 0:
			w.TSLattice = []uint64{1000, 2000, 3000}
			w.TSNow = 300
		case 1:
			w.TSLattice = []uint64{0, 1000, 2000}
			w.TSNow = 200
		case 2:
			w.TSNow = 1000
		}
		w.ExtraHdr = pick(t, "cfg-extra", 0, 150)
	}
	if !c.Native {
		// Documented exclusion (DESIGN.md section 5): in shadow mode an empty
		// application value makes the real code crash with SIGBUS inside
		// lmdb-go (known finding C11/sigbus-empty-value) and is turned into
		// a deletion (known finding C11/empty-value-deleted). Both are
		// explored by the fleet-shadow profile only.
		w.EmptyVal = 0
	}
	w.BigVal = pick(t, "cfg-big", 0, 0, 30)
	c.Work = w
	c.AppTxns = 4 + t.Choose("cfg-apptxns", 30)
	c.Steps = 120 + t.Choose("cfg-steps", 300)
	c.AppRate = pick(t, "cfg-apprate", 150, 60, 300)
	c.Poll = pick(t, "cfg-poll", time.Second, 200*time.Millisecond, 3*time.Second)
	c.StPoll = pick(t, "cfg-stpoll", time.Second, 200*time.Millisecond, 3*time.Second)
	c.Retry = pick(t, "cfg-retry", 500*time.Millisecond, 2*time.Second)
	c.RetryCnt = 3
	c.MemDL = 1 + t.Choose("cfg-memdl", 3)
	c.MemDec = 1 + t.Choose("cfg-memdec", 2)
	c.BigDelta = pick(t, "cfg-bigdelta", 20, 0, 120)
	c.StaggerStart = t.Choose("cfg-stagger", 2) == 1
	if simDepth >= 2 && t.Choose("cfg-deep", 3) == 0 {
		// thorough tier: a third of the runs are larger worlds with longer
		// histories (more instances, keys, application transactions, steps)
		c.N = 2 + t.Choose("cfg-deep-n", 5)
		for i := nkeys + 1; i <= nkeys+t.Choose("cfg-deep-keys", 5); i++ {
			c.Work.Keys = append(c.Work.Keys, fmt.Sprintf("k%d", i))
		}
		c.AppTxns *= 2 + t.Choose("cfg-deep-txns", 3)
		c.Steps *= 2 + t.Choose("cfg-deep-steps", 3)
	}
	return c
}

// swarmFaults enables a random subset of bucket fault kinds.
func swarmFaults(t *Tape, c *FleetCfg) {
	on := func(k string) bool { return t.Choose("cfg-f-"+k, 3) == 2 }
	fc := FaultCfg{Active: true, MaxLatency: 2 * time.Second, StaleWindow: 3 * time.Second}
	if on("list") {
		fc.ListErr = 60
	}
	if on("load") {
		fc.LoadErr = 60
	}
	if on("store") {
		fc.StoreErr = 80
	}
	if on("store-after") {
		fc.StoreErrAfter = 50
	}
	if on("lat") {
		fc.Latency = 120
	}
	if on("stale") {
		fc.StaleList = 120
	}
	if on("vanish") {
		fc.Vanish = 40
	}
	c.Faults = fc
	c.PartRate = pick(t, "cfg-part", 0, 0, 8)
}

// FleetRun wires a fleet run for a profile.
type FleetRun struct {
	Gen     func(t *Tape) FleetCfg
	Mons    func(f *Fleet) []Monitor
	Custom  func(f *Fleet)               // replaces the standard workload+drain
	Post    func(f *Fleet, r *RunResult) // fills Nontrivial / Undecided / Counts
	NoDrain bool
}

func fleetProfile(name, prop string, fr FleetRun) *Profile {
	return &Profile{Name: name, Property: prop, Run: func(env *RunEnv) {
		cfg := fr.Gen(env.Tape)
		f, err := NewFleet(env.Sim, env.Root, cfg)
		if err != nil {
			env.Res.HarnessErr = err.Error()
			return
		}
		defer f.Close()
		env.Sim.Logf("cfg %s n=%d native=%v dbis=%d keys=%d apptxns=%d steps=%d poll=%s stpoll=%s retry=%s faults=%+v crash=%d",
			name, cfg.N, cfg.Native, len(cfg.Work.DBIs), len(cfg.Work.Keys), cfg.AppTxns, cfg.Steps, cfg.Poll, cfg.StPoll, cfg.Retry, cfg.Faults, cfg.CrashRate)
		if fr.Mons != nil {
			f.Mon = fr.Mons(f)
		}
		if propertyOverride == "C17" {
			f.Mon = append(f.Mon, &MonCancel{})
			f.Cfg.CancelRate = pick(env.Tape, "cfg-cancel", 10, 0, 25)
		}
		if fr.Custom != nil {
			fr.Custom(f)
		} else {
			f.RunWorkload()
			if !f.Failed() && !fr.NoDrain {
				f.Drain(cfg.DrainTime())
			}
		}
		f.Finish()
		if propertyOverride == "C17" {
			f.wedgeCheck()
		}
		env.Res.Violations = f.Violations
		env.Res.SimMs = int64(f.Sim.Now() / time.Millisecond)
		env.Res.Counts = map[string]int{
			"app_txns": f.Stats.AppTxns, "ls_txns": f.Stats.LSTxns, "crashes": f.Stats.Crashes,
			"restarts": f.Stats.Restarts, "empty_restarts": f.Stats.EmptyRestarts,
			"stores": f.Stats.Stores, "loads": f.Stats.Loads, "lists": f.Stats.Lists, "deletes": f.Stats.Deletes,
			"nodes": cfg.N,
		}
		if fr.Post != nil {
			fr.Post(f, env.Res)
		}
	}}
}

// multiWriterKeys counts keys written by at least two instances.
func multiWriterKeys(f *Fleet) int {
	w := map[string]map[string]bool{}
	for _, tx := range f.AppHistory {
		for _, op := range tx.Ops {
			k := op.DBI + "/" + string(op.Key)
			if w[k] == nil {
				w[k] = map[string]bool{}
			}
			w[k][tx.Node] = true
		}
	}
	n := 0
	for _, s := range w {
		if len(s) >= 2 {
			n++
		}
	}
	return n
}

func init() {
	RegisterProfile(fleetProfile("fleet-converge", "C01", FleetRun{
		Gen: func(t *Tape) FleetCfg {
			c := swarmBase(t)
			swarmFaults(t, &c)
			c.CrashRate = pick(t, "cfg-crash", 0, 0, 6, 15)
			c.ZeroDelta = pick(t, "cfg-zerodelta", 0, 50)
			// one run in twelve: a native application may stamp a write
			// below the version it overwrites locally (clock skew between
			// hosts); see the known finding nonmonotone-local-write
			c.Work.NonMonotone = c.Native && t.Choose("cfg-nonmonotone", 12) == 11
			if !c.Native && t.Choose("cfg-int-conv", 3) == 2 {
				// shadow mode: one more application DBI with MDB_INTEGERKEY
				// keys whose numeric order is not their byte order
				c.Work.DBIs = append(c.Work.DBIs, "i4")
				c.Work.DBIFlags = map[string]uint{"i4": 0x08}
				c.Work.DBIKeys = map[string][]string{"i4": {le32(0), le32(1), le32(2), le32(256), le32(1 << 31), le32(0x01000000)}}
			}
			return c
		},
		Mons: func(f *Fleet) []Monitor { return []Monitor{&MonC01{}} },
		Post: func(f *Fleet, r *RunResult) {
			m := f.Mon[0].(*MonC01)
			r.Undecided = m.Undecided
			r.Nontrivial = m.Decided && multiWriterKeys(f) > 0 && f.Stats.Loads > 0
		},
	}))
}

// swarmAppsafe: two instances, application commits biased to the windows
// around Lightning Stream's own transactions, frequent empty transactions
// (restarts re-deliver everything, peers re-upload identical content).
func swarmAppsafe(t *Tape) FleetCfg {
	c := swarmBase(t)
	c.N = 2 + t.Weighted("cfg-n2", []int{4, 1})
	c.AppRate = pick(t, "cfg-apprate2", 250, 120, 400)
	c.AppTxns = 6 + t.Choose("cfg-apptxns2", 30)
	c.PreferPoints = []string{"lmdb:end-write", "lmdb:begin-write", "loadonce:after-txn", "sendonce:after-txn", "sync:before-change-check",
		"sync:before-send", "sync:after-load", "sync:before-load", "sendonce:in-view", "sync:loop-top"}
	c.PreferBias = pick(t, "cfg-prefer", 700, 300, 950)
	if t.Choose("cfg-focus", 2) == 1 {
		// directed: every application commit is aimed at one window
		c.PreferPoints = []string{c.PreferPoints[t.Choose("cfg-focus-point", len(c.PreferPoints))]}
		c.PreferBias = 1000
	}
	c.CrashRate = pick(t, "cfg-crash2", 0, 8, 20)
	c.Work.MaxOps = 1 + t.Choose("cfg-maxops2", 2)
	// periodic forced snapshots: uploads that are not triggered by a change
	c.ForceInt = pick(t, "cfg-forceint2", 0, 0, 5*time.Second, 20*time.Second)
	if t.Choose("cfg-forced-focus", 8) == 7 {
		// directed: frequent forced snapshots of an unchanged database, and
		// the application commits right before the upload step
		c.ForceInt = 3 * time.Second
		c.PreferPoints = []string{"sync:before-send", "sync:before-change-check"}
		c.PreferBias = 1000
		c.AppRate = 60
	}
	return c
}

func appAtInteresting(r *RunResult) bool {
	for k := range r.Probes {
		switch k {
		case "app-at:loadonce:after-txn", "app-at:sendonce:after-txn", "app-at:sync:before-send", "app-at:sendonce:in-view", "app-at:sync:after-load":
			return true
		}
	}
	return false
}

func init() {
	RegisterProfile(fleetProfile("fleet-appsafe", "C03", FleetRun{
		Gen: swarmAppsafe,
		Mons: func(f *Fleet) []Monitor {
			if f.T.Chance("cfg-receive-only3", 150) {
				// one instance only receives: its application's commits are
				// as safe as anybody's
				f.Nodes[len(f.Nodes)-1].Opt.ReceiveOnly = true
				f.Sim.Logf("cfg receive-only=%s", f.Nodes[len(f.Nodes)-1].Name)
			}
			return []Monitor{&MonC03{}}
		},
		Post: func(f *Fleet, r *RunResult) {
			m := f.Mon[0].(*MonC03)
			r.Counts["ls_txns_checked"] = m.Checked
			r.Nontrivial = m.Checked > 0 && f.Stats.AppTxns > 0
		},
	}))
	RegisterProfile(fleetProfile("fleet-publish", "C09", FleetRun{
		Gen: func(t *Tape) FleetCfg {
			c := swarmAppsafe(t)
			// Store failures shorter than the retry budget
			if t.Choose("cfg-storefail", 2) == 1 {
				c.Faults = FaultCfg{Active: true, StoreErr: 150}
				c.RetryCnt = 6
			}
			return c
		},
		Mons: func(f *Fleet) []Monitor { return []Monitor{&MonC09{}, &monOwnVanish{}} },
		Post: func(f *Fleet, r *RunResult) {
			m := f.Mon[0].(*MonC09)
			r.Counts["idle_checks"] = m.IdleChk
			r.Counts["end_checks"] = m.EndChk
			r.Nontrivial = m.IdleChk+m.EndChk > 0 && f.Stats.AppTxns > 0
		},
	}))
}

func init() {
	RegisterProfile(fleetProfile("fleet-image", "C06", FleetRun{
		Gen: func(t *Tape) FleetCfg {
			c := swarmBase(t)
			c.N = 1 + t.Weighted("cfg-n3", []int{2, 3, 1})
			// several DBIs, multi-DBI transactions, big values, extension blocks
			c.Work.DBIs = []string{"d1", "d2", "d3"}[:2+t.Choose("cfg-ndbi3", 2)]
			c.Work.MaxOps = 2 + t.Choose("cfg-maxops3", 5)
			c.Work.BigVal = pick(t, "cfg-big3", 0, 100, 300)
			if c.Native {
				c.Work.ExtraHdr = pick(t, "cfg-extra3", 0, 200, 500)
			}
			c.AppRate = pick(t, "cfg-apprate3", 300, 150, 500)
			c.AppTxns = 8 + t.Choose("cfg-apptxns3", 40)
			c.PreferPoints = []string{"sendonce:in-view", "sync:before-send", "sendonce:after-txn", "bucket:store", "lmdb:end-read", "lmdb:begin-read", "lmdb:end-write"}
			c.PreferBias = pick(t, "cfg-prefer3", 600, 200, 900)
			c.CrashRate = pick(t, "cfg-crash3", 0, 0, 10)
			c.Padding = t.Choose("cfg-padding", 4) == 3
			if t.Choose("cfg-storefail3", 3) == 2 {
				// uploads that fail and are retried: name, metadata and
				// content of what finally arrives still belong together
				c.Faults = FaultCfg{Active: true, StoreErr: 150, MaxLatency: time.Second}
				c.RetryCnt = 6
			}
			return c
		},
		Mons: func(f *Fleet) []Monitor { return []Monitor{&MonC06{}} },
		Post: func(f *Fleet, r *RunResult) {
			m := f.Mon[0].(*MonC06)
			r.Counts["snapshots_checked"] = m.Checked
			r.Nontrivial = m.Checked >= 2 && f.Stats.AppTxns > 0
		},
	}))
	RegisterProfile(fleetProfile("fleet-header", "C14", FleetRun{
		Gen: func(t *Tape) FleetCfg {
			c := swarmBase(t)
			if c.Native {
				c.Work.ExtraHdr = pick(t, "cfg-extra4", 300, 0, 700)
				c.Work.DelPayload = pick(t, "cfg-delpayload", 0, 250, 600)
			}
			c.Work.BigVal = pick(t, "cfg-big4", 0, 100, 300) // values beyond the iterator's initial buffer
			c.Padding = t.Choose("cfg-padding", 3) == 2
			c.CrashRate = pick(t, "cfg-crash4", 0, 0, 10)
			return c
		},
		Mons: func(f *Fleet) []Monitor {
			return []Monitor{&MonC14{}, &MonC06{Prop: "C14", SkipRaced: true}, &monForeignFlags{}}
		},
		Custom: func(f *Fleet) {
			f.RunWorkload()
			if f.Failed() {
				return
			}
			m := f.Mon[0].(*MonC14)
			// Fault side: a stored value that is too short or has another
			// header version must be rejected with an error, not misread.
			if f.Cfg.Native && f.T.Choose("bad-value", 3) > 0 {
				f.Sim.Quiesce()
				n := f.Nodes[f.T.Choose("bad-node", len(f.Nodes))]
				if f.InRaceWindow(n) || !n.Running {
					// would run into the known txn-id reuse race instead
					f.Drain(f.Cfg.DrainTime())
					return
				}
				var bad []byte
				switch f.T.Choose("bad-kind", 4) {
				case 0:
					bad = make([]byte, f.T.Choose("bad-len", 24)) // too short (incl. empty)
				case 1:
					bad = MakeHdr(uint64(time.Now().UnixNano()), 1, 0, 0, []byte("v"))
					bad[16] = byte(1 + f.T.Choose("bad-version", 255)) // other header version
				case 2:
					bad = MakeHdr(uint64(time.Now().UnixNano()), 1, 0, 0, []byte("short"))
					bad[23] = byte(2 + f.T.Choose("bad-extra", 50)) // claims extension blocks that are not there
				case 3:
					bad = []byte("plain application value without any header!")
					bad[16] = 7
				}
				if len(bad) == 0 {
					bad = []byte{1}
				}
				var txn int64
				err := n.Env.Update(func(txn2 *lmdbTxn) error {
					txn = int64(txn2.ID())
					dbi, err := txn2.OpenDBI(f.Cfg.Work.DBIs[0], lmdbCreate)
					if err != nil {
						return err
					}
					return txn2.Put(dbi, []byte("zz-malformed"), bad, 0)
				})
				if err != nil {
					panic(err)
				}
				f.Sim.Logf("  app %s txn=%d stores malformed value %x", n.Name, txn, bad)
				f.Sim.Probe("malformed-value-stored")
				if m.BadNode == nil {
					m.BadNode = map[*Node]int64{}
				}
				m.BadNode[n] = txn
				// Observation would fail to parse this value; that is expected.
			}
			f.Drain(f.Cfg.DrainTime())
			if f.Failed() {
				return
			}
			// An instance that has come up again (the harness restarts failed
			// instances like a service manager) gets the time one incarnation
			// needs to run into the value again: several polls after its
			// start. Only an incarnation that has been up that long is judged.
			need := 4*(f.Cfg.Poll+f.Cfg.StPoll) + 3*f.Cfg.Retry + 2*time.Second
			for round := 0; round < 4; round++ {
				pending := false
				for n := range m.BadNode {
					if ret, _ := n.SyncReturned(n.Inc); n.Running && !ret && f.Sim.Now()-n.StartedAt < need {
						pending = true
					}
				}
				if !pending {
					break
				}
				f.Drain(need)
				if f.Failed() {
					return
				}
			}
			for _, n := range f.Nodes {
				txn, bad := m.BadNode[n]
				if !bad {
					continue
				}
				// The instance must have stopped with an error.
				ret, err := n.SyncReturned(n.Inc)
				if n.Running && !ret && f.Sim.Now()-n.StartedAt < need {
					f.Sim.Probe("c14-malformed-node-restarted-late")
					continue
				}
				if n.Running && !(ret && err != nil) {
					f.Violate(Violation{"C14", "malformed-rejected", "no-error-on-malformed-value",
						fmt.Sprintf("%s holds a malformed value since txn %d but its sync loop neither failed nor stopped (returned=%v err=%v)", n.Name, txn, ret, err)})
				}
			}
		},
		Post: func(f *Fleet, r *RunResult) {
			m := f.Mon[0].(*MonC14)
			r.Counts["values_checked"] = m.Checked
			r.Nontrivial = m.Checked > 0
		},
	}))
}

func init() {
	RegisterProfile(fleetProfile("fleet-quiesce", "C10", FleetRun{
		Gen: func(t *Tape) FleetCfg {
			c := swarmBase(t)
			swarmFaults(t, &c)
			c.Padding = t.Choose("cfg-padding", 3) == 2
			c.CrashRate = pick(t, "cfg-crash5", 0, 0, 8)
			c.Steps = 100 + t.Choose("cfg-steps5", 200)
			c.ForceInt = pick(t, "cfg-forceint", 0, 0, 0, time.Minute, 20*time.Second)
			return c
		},
		Mons:   func(f *Fleet) []Monitor { return []Monitor{&MonC10{}} },
		Custom: func(f *Fleet) { RunQuiesce(f, f.Mon[0].(*MonC10)) },
		Post: func(f *Fleet, r *RunResult) {
			m := f.Mon[0].(*MonC10)
			r.Undecided = m.Undecided
			r.Nontrivial = m.Decided && f.Stats.AppTxns > 0 && f.Stats.Loads > 0
		},
	}))
	RegisterProfile(fleetProfile("fleet-delete", "C04", FleetRun{
		Gen: func(t *Tape) FleetCfg {
			c := swarmBase(t)
			swarmFaults(t, &c)
			c.Work.DelRate = pick(t, "cfg-del6", 500, 350, 650)
			c.Work.Keys = c.Work.Keys[:1+t.Choose("cfg-nkeys6", len(c.Work.Keys))]
			c.CrashRate = pick(t, "cfg-crash6", 0, 8, 20) // restarts re-merge old snapshots
			if t.Choose("cfg-sweeper", 3) == 2 {
				sw := &c.Sweeper
				sw.Enabled = true
				sw.RetentionDays = pick(t, "cfg-retention", float32(15.0/86400), float32(60.0/86400), 0, 0.5, 370)
				sw.RetentionLoadCutoffDuration = pick(t, "cfg-loadcutoff", 0, -time.Second, 2*time.Second, 30*time.Second, 1000*time.Hour, -30*time.Second, -1000*time.Hour)
				sw.FirstInterval = pick(t, "cfg-sw-first", 3*time.Second, 10*time.Second)
				sw.Interval = pick(t, "cfg-sw-int", 5*time.Second, 20*time.Second)
				sw.LockDuration = 50 * time.Millisecond
				sw.ReleaseDuration = pick(t, "cfg-sw-rel", 50*time.Millisecond, time.Second)
				c.BigDelta = pick(t, "cfg-bigdelta6", 150, 300)
			}
			return c
		},
		Mons: func(f *Fleet) []Monitor {
			sw := f.Cfg.Sweeper
			return []Monitor{
				&MonC04{SweeperOn: sw.Enabled, Retention: sw.RetentionDuration()},
				&MonC06{Prop: "C04", Markers: true, SkipRaced: true},
			}
		},
		Post: func(f *Fleet, r *RunResult) {
			m := f.Mon[0].(*MonC04)
			r.Counts["ls_txns_checked"] = m.Checked
			r.Counts["markers_seen"] = m.Markers
			r.Counts["merges_checked"] = m.Merged
			r.Nontrivial = m.Markers > 0 && f.Stats.Loads > 0
		},
	}))
	RegisterProfile(fleetProfile("fleet-bucket", "C05", FleetRun{
		Gen: func(t *Tape) FleetCfg {
			c := swarmBase(t)
			c.N = 2 + t.Weighted("cfg-n7", []int{3, 2})
			swarmFaults(t, &c)
			if t.Choose("cfg-f-delete", 3) == 2 {
				c.Faults.DeleteErr = 80
				c.Faults.DeleteErrAfter = 60
			}
			c.CrashRate = pick(t, "cfg-crash7", 10, 0, 25)
			c.RestartEmpty = pick(t, "cfg-empty7", 300, 0, 700)
			c.AppWhileDown = false
			c.Cleanup.Enabled = t.Choose("cfg-cleaner", 4) != 3
			c.Cleanup.Interval = pick(t, "cfg-cl-int", 2*time.Second, 5*time.Second, 500*time.Millisecond)
			c.Cleanup.MustKeepInterval = pick(t, "cfg-cl-keep", time.Second, 4*time.Second, 0)
			c.Cleanup.RemoveOldInstancesInterval = pick(t, "cfg-cl-stale", 10*time.Second, 30*time.Second, 3*time.Second)
			c.BigDelta = pick(t, "cfg-bigdelta7", 60, 150)
			return c
		},
		Mons: func(f *Fleet) []Monitor { return []Monitor{&MonC05{}} },
		Post: func(f *Fleet, r *RunResult) {
			m := f.Mon[0].(*MonC05)
			r.Counts["bucket_mutations_checked"] = m.Checked
			r.Nontrivial = m.Checked >= 2 && f.Stats.AppTxns > 0
		},
	}))
}

// fleet-receiveonly: one instance runs in receive-only mode. It must merge
// what the others publish, and never store or delete anything.
func init() {
	RegisterProfile(&Profile{Name: "fleet-receiveonly", Property: "C12", Run: func(env *RunEnv) {
		t := env.Tape
		cfg := swarmBase(t)
		cfg.N = 2 + t.Choose("cfg-n8", 2)
		swarmFaults(t, &cfg)
		cfg.Cleanup = cleanupCfg(t)
		cfg.Cleanup.Enabled = true
		f, err := NewFleet(env.Sim, env.Root, cfg)
		if err != nil {
			env.Res.HarnessErr = err.Error()
			return
		}
		defer f.Close()
		ro := f.Nodes[len(f.Nodes)-1]
		ro.Opt.ReceiveOnly = true
		env.Sim.Logf("cfg fleet-receiveonly n=%d native=%v receive-only=%s", cfg.N, cfg.Native, ro.Name)
		mon := &monReceiveOnly{node: ro}
		f.Mon = []Monitor{mon}
		f.RunWorkload()
		if !f.Failed() {
			f.Drain(cfg.DrainTime())
		}
		f.Finish()
		env.Res.Violations = f.Violations
		env.Res.SimMs = int64(f.Sim.Now() / time.Millisecond)
		env.Res.Counts = map[string]int{"ro_loads": mon.loads}
		env.Res.Nontrivial = len(ro.LoadedEvents()) > 0
	}})
}

type monReceiveOnly struct {
	BaseMonitor
	node  *Node
	loads int
}

func (m *monReceiveOnly) BucketOp(f *Fleet, op *BucketOp) {
	if op.Node != m.node.Name {
		return
	}
	switch op.Op {
	case "load":
		m.loads++
	case "store", "delete":
		f.Violate(Violation{"C12", "receive-only-silent", "receive-only-" + op.Op,
			fmt.Sprintf("receive-only instance %s issued %s %s", m.node.Name, op.Op, op.Name)})
	}
}

func cleanupCfg(t *Tape) (c struct {
	Enabled                    bool          `yaml:"enabled"`
	Interval                   time.Duration `yaml:"interval"`
	MustKeepInterval           time.Duration `yaml:"must_keep_interval"`
	RemoveOldInstancesInterval time.Duration `yaml:"remove_old_instances_interval"`
}) {
	c.Interval = pick(t, "cfg-cl-int", 2*time.Second, 5*time.Second, 500*time.Millisecond)
	c.MustKeepInterval = pick(t, "cfg-cl-keep", time.Second, 4*time.Second, 0)
	c.RemoveOldInstancesInterval = pick(t, "cfg-cl-stale", 10*time.Second, 30*time.Second, 3*time.Second)
	return
}

func init() {
	RegisterProfile(fleetProfile("fleet-cleaner", "C12", FleetRun{
		Gen: func(t *Tape) FleetCfg {
			c := swarmBase(t)
			c.N = 2 + t.Weighted("cfg-n9", []int{3, 2})
			swarmFaults(t, &c)
			c.CrashRate = pick(t, "cfg-crash9", 5, 0, 15)
			c.Cleanup = cleanupCfg(t)
			c.Cleanup.Enabled = true
			c.Cleanup.RemoveOldInstancesInterval = pick(t, "cfg-cl-stale9", 3*time.Second, 8*time.Second, 0)
			c.BigDelta = pick(t, "cfg-bigdelta9", 100, 250)
			return c
		},
		Mons: func(f *Fleet) []Monitor { return []Monitor{&MonC12Fleet{}} },
		Post: func(f *Fleet, r *RunResult) {
			m := f.Mon[0].(*MonC12Fleet)
			r.Counts["cleaner_deletes"] = m.Deletes
			r.Nontrivial = m.Deletes > 0
		},
	}))
}

// fleet-runonce: an instance started with only_once must end by itself after
// it has merged the newest snapshot of every instance present at start-up,
// not earlier, despite transient List/Load failures.
func init() {
	RegisterProfile(&Profile{Name: "fleet-runonce", Property: "C16", Run: func(env *RunEnv) {
		t := env.Tape
		cfg := swarmBase(t)
		cfg.N = 3 + t.Choose("cfg-n10", 2)
		swarmFaults(t, &cfg)
		cfg.Faults.StoreErr, cfg.Faults.StoreErrAfter = 0, 0
		cfg.Steps = 80 + t.Choose("cfg-steps10", 150)
		f, err := NewFleet(env.Sim, env.Root, cfg)
		if err != nil {
			env.Res.HarnessErr = err.Error()
			return
		}
		defer f.Close()
		ro := f.Nodes[len(f.Nodes)-1]
		ro.Conf.OnlyOnce = true
		f.Excluded[ro] = true
		env.Sim.Logf("cfg fleet-runonce n=%d native=%v run-once=%s faults=%+v", cfg.N, cfg.Native, ro.Name, cfg.Faults)
		f.RunWorkload()
		viol := func(o, sig, msg string) { f.Violate(Violation{"C16", o, sig, msg}) }
		if f.Failed() {
			return
		}
		// let the others publish what they have, then start the run-once
		// instance while List/Load faults are still active
		f.Bucket.Cfg.StoreErr, f.Bucket.Cfg.StoreErrAfter = 0, 0
		f.Drain(cfg.DrainTime() / 2)
		f.Bucket.Cfg = cfg.Faults
		f.Bucket.Cfg.StoreErr, f.Bucket.Cfg.StoreErrAfter = 0, 0
		cache := map[string]Logical{}
		// In some runs an undecodable blob is the newest object of one or
		// two instances: their newest *decodable* snapshot is an older one.
		if t.Chance("ro-corrupt", 400) {
			for _, n := range f.Nodes[:1+t.Choose("ro-corrupt-n", 2)] {
				if n == ro {
					continue
				}
				ts := time.Now()
				name := strings.Replace(snapName(DBName, n.Name, ts, ""), "__G1", "__GH", 1)
				blob, kind := hostileBlob(t, validBlob(DBName, n.Name, ts, 1))
				if ok, _ := decodeFullyNoPanicCheck(blob); ok {
					continue
				}
				f.Bucket.Put(name, blob, "hostile")
				cache[name] = nil // undecodable
				f.Sim.Logf("  undecodable blob %s (%s) is now the newest object of %s", name, kind, n.Name)
				f.Sim.Probe("runonce-corrupt-newest")
				f.Sim.Sleep(time.Millisecond)
			}
		}
		atStart := f.NewestDecodableByInstance(cache)
		want := Logical{}
		for _, name := range atStart {
			for dbi, m := range cache[name] {
				if want[dbi] == nil {
					want[dbi] = map[string]Version{}
				}
				for k, v := range m {
					if cur, ok := want[dbi][k]; !ok || v.TS > cur.TS {
						want[dbi][k] = v
					}
				}
			}
		}
		if err := ro.Start(); err != nil {
			panic(err)
		}
		f.Sim.Logf("-- run-once instance %s started; newest at start: %v", ro.Name, atStart)
		faultEnd := f.Sim.Now() + time.Duration(t.Choose("ro-fault-s", 20))*time.Second
		bound := 10*(cfg.Poll+cfg.StPoll) + 6*cfg.Retry + 10*time.Second
		var deadline time.Duration
		returned := false
		for i := 0; i < 6000; i++ {
			parked := f.Sim.Quiesce()
			if ret, err := ro.SyncReturned(ro.Inc); ret {
				returned = true
				if err != nil {
					viol("run-once-ends", "run-once-error", fmt.Sprintf("run-once instance %s: Sync returned an error: %v", ro.Name, err))
				}
				break
			}
			if f.Bucket.Cfg.Active && f.Sim.Now() >= faultEnd {
				f.Bucket.Cfg.Active = false
				f.Bucket.Partition = map[string]time.Duration{}
				deadline = f.Sim.Now() + bound
				f.Sim.Logf("-- faults off")
			}
			if deadline > 0 && f.Sim.Now() > deadline {
				break
			}
			if len(parked) == 0 {
				f.Sim.Idle(time.Second)
				continue
			}
			f.Sim.Sleep(time.Duration(1+t.Choose("dus", 500)) * time.Microsecond)
			f.Sim.Release(parked[t.Choose("run", len(parked))])
		}
		f.Sim.Quiesce()
		if !returned && !f.Failed() {
			viol("run-once-ends", "run-once-did-not-end", fmt.Sprintf("run-once instance %s did not end within %s after the faults stopped", ro.Name, bound))
		}
		if returned && !f.Failed() {
			// "Present at start-up" is what the instance's own initial
			// listing showed (a stale listing may have hidden a recent
			// upload): instances it never saw there are not required.
			listed := map[string]bool{}
			for _, op := range f.Bucket.Ops {
				if op.Op == "list" && op.Err == "" && op.Node == ro.Name && strings.HasPrefix(op.Task, ro.Name+"/syncloop") {
					for _, name := range op.Names {
						if pn, ok := ParseSnapName(name); ok {
							listed[pn.Instance] = true
						}
					}
					break
				}
			}
			for inst := range atStart {
				if !listed[inst] {
					f.Sim.Probe("runonce-instance-hidden-by-stale-listing")
					delete(atStart, inst)
				}
			}
			want = Logical{}
			for _, name := range atStart {
				for dbi, m := range cache[name] {
					if want[dbi] == nil {
						want[dbi] = map[string]Version{}
					}
					for k, v := range m {
						if cur, ok := want[dbi][k]; !ok || v.TS > cur.TS {
							want[dbi][k] = v
						}
					}
				}
			}
			// not earlier: every instance present at start-up was merged
			for _, inst := range sortedKeys(atStart) {
				if inst == ro.Name {
					continue
				}
				still := false
				for _, name := range f.Bucket.Names() {
					if pn, ok := ParseSnapName(name); ok && pn.Instance == inst {
						still = true
					}
				}
				merged := false
				for _, ev := range ro.LoadedEvents() {
					if pn, ok := ParseSnapName(ev.Name); ok && pn.Instance == inst && ev.Name >= atStart[inst] {
						merged = true
					}
				}
				if still && !merged {
					viol("run-once-complete", "ended-before-merging-all", fmt.Sprintf("run-once instance %s ended without having merged the newest snapshot of %s (%s)", ro.Name, inst, atStart[inst]))
					break
				}
			}
			st, _ := DumpEnv(ro.Env)
			got, _ := st.LogicalContent(ro.Native)
			for _, dbi := range sortedKeys(want) {
				for _, k := range sortedKeys(want[dbi]) {
					if f.Failed() {
						break
					}
					g, ok := got[dbi][k]
					if !ok || g.TS < want[dbi][k].TS {
						viol("run-once-complete", "content-missing", fmt.Sprintf("run-once instance %s ended but holds %v (present=%v) for %s/%q; the snapshots present at its start held %s", ro.Name, g, ok, dbi, k, want[dbi][k]))
					}
				}
			}
		}
		env.Res.Violations = f.Violations
		env.Res.SimMs = int64(f.Sim.Now() / time.Millisecond)
		env.Res.Counts = map[string]int{"instances_at_start": len(atStart), "ro_loaded": len(ro.LoadedEvents())}
		env.Res.Nontrivial = returned && len(atStart) >= 2
	}})
}

// monOwnVanish (fleet-publish, C09): while an instance is starting up, a
// peer's cleaner outside the fleet removes all of that instance's snapshots
// (what happens to an instance that was silent for longer than the stale
// interval). The instance listed its own snapshot and now cannot load it; it
// must get over that and publish its local data all the same.
type monOwnVanish struct {
	BaseMonitor
	done map[string]bool
}

func (m *monOwnVanish) StepDone(f *Fleet, actor Actor) {
	if f.Phase != "workload" {
		return
	}
	for _, n := range f.Nodes {
		key := fmt.Sprintf("%s#%d", n.Name, n.Inc)
		if !n.Running || n.Steady() || m.done[key] || n.Inc < 2 {
			continue
		}
		if !f.T.Chance("own-vanish", 40) {
			continue
		}
		if m.done == nil {
			m.done = map[string]bool{}
		}
		m.done[key] = true
		k := 0
		for _, name := range f.Bucket.Names() {
			if strings.HasPrefix(name, DBName+"__"+n.Name+"__") {
				f.Bucket.Remove(name, "foreign-cleaner")
				k++
			}
		}
		if k > 0 {
			f.Sim.Logf("  a cleaner outside the fleet removed the %d snapshot(s) of %s, which is starting up", k, n.Name)
			f.Sim.Probe("own-snapshots-vanish-at-startup")
		}
	}
}

// monForeignFlags (fleet-header, C14): a peer running other software publishes
// well-formed snapshots whose entries carry flag bits outside the synced set
// (and deletions with a payload). Whatever Lightning Stream stores from them
// must still have a well-formed header.
type monForeignFlags struct {
	BaseMonitor
	n int
}

func (m *monForeignFlags) StepDone(f *Fleet, actor Actor) {
	if f.Phase != "workload" || !f.T.Chance("foreign-put", 25) {
		return
	}
	m.n++
	ts := time.Now()
	s := &gogosnapshot.Snapshot{FormatVersion: 3, CompatVersion: 1}
	s.Meta.DatabaseName = DBName
	s.Meta.InstanceID = "x"
	s.Meta.TimestampNano = uint64(ts.UnixNano())
	s.Meta.LmdbTxnID = int64(m.n)
	flagPool := []uint32{0, 1, 0x02, 0x05, 0x40, 0x80, 0x82, 0xfe, 0xff, 0x100, 0x101, 1 << 31}
	for _, dbi := range f.Cfg.Work.DBIs {
		d := &gogosnapshot.DBI{Name: dbi}
		keys := append([]string{}, f.Cfg.Work.Keys...)
		keys = append(keys, fmt.Sprintf("xk%d", m.n), "xk")
		sort.Strings(keys)
		for _, k := range keys {
			if !f.T.Chance("foreign-key", 500) {
				continue
			}
			fl := flagPool[f.T.Choose("foreign-flags", len(flagPool))]
			e := gogosnapshot.KV{Key: []byte(k), TimestampNano: uint64(ts.UnixNano()) - uint64(f.T.Choose("foreign-age", 3))*uint64(time.Second), Flags: fl}
			if fl&1 == 0 || f.T.Chance("foreign-del-payload", 300) {
				e.Value = []byte(fmt.Sprintf("x.%d", m.n))
			}
			d.Entries = append(d.Entries, e)
		}
		s.Databases = append(s.Databases, d)
	}
	blob, err := RefEncode(s)
	if err != nil {
		panic(err)
	}
	f.Bucket.Put(snapName(DBName, "x", ts, ""), blob, "foreign")
	f.Sim.Probe("foreign-flag-snapshot")
}

// fleet-hostile (C08): honest instances plus a hostile publisher that places
// undecodable and adversarial blobs under a foreign instance name and under
// the honest instances' own names. After the faults stop, honest traffic
// must still flow: the newest decodable snapshot of every instance is merged
// everywhere and every instance still publishes its own data.
type monHostile struct {
	BaseMonitor
	placed int
	bad    map[string]bool
}

func (m *monHostile) StepDone(f *Fleet, actor Actor) {
	if f.Phase != "workload" || !f.T.Chance("hostile-put", 60) {
		return
	}
	if m.bad == nil {
		m.bad = map[string]bool{}
	}
	inst := "h"
	if f.T.Chance("hostile-as-honest", 400) {
		inst = f.Nodes[f.T.Choose("hostile-inst", len(f.Nodes))].Name
	}
	ts := time.Now()
	name := snapName(DBName, inst, ts, "")
	name = strings.Replace(name, "__G1", "__GH", 1) // a generation id no honest instance uses: no name collisions
	blob, kind := hostileBlob(f.T, validBlob(DBName, inst, ts, 1))
	if kind == "gzip-zeros" {
		blob = GzipBytes(make([]byte, 4096))
	}
	ok, _ := decodeFullyNoPanicCheck(blob)
	if ok {
		// The property is about blobs that cannot be decoded. A decodable
		// forgery is ordinary remote data (possibly of a format version this
		// build must refuse, which is C18's subject).
		return
	}
	f.Bucket.Put(name, blob, "hostile")
	m.placed++
	if !ok {
		m.bad[name] = true
	}
	f.Sim.Logf("  hostile blob %s kind=%s decodable=%v", name, kind, ok)
	f.Sim.Probe("hostile:" + kind)
}

func decodeFullyNoPanicCheck(blob []byte) (ok bool, p string) {
	defer func() {
		if r := recover(); r != nil {
			ok, p = false, "panic"
		}
	}()
	return decodeFully(blob)
}

func (m *monHostile) AtEnd(f *Fleet) {
	cache := map[string]Logical{}
	for name := range m.bad {
		cache[name] = nil // undecodable for this build
	}
	newest := f.NewestDecodableByInstance(cache)
	if why := f.PremiseWith(newest); why != "" {
		for k := range f.RaceKeys {
			parts := strings.SplitN(k, "/", 3) // node/dbi/key
			if strings.Contains(why, fmt.Sprintf("%s/%q", parts[1], parts[2])) {
				f.Sim.Probe("c08-premise-blocked-by-known-race")
				return
			}
		}
		sig := "honest-traffic-blocked"
		if strings.Contains(why, "has not merged") {
			sig = "newest-decodable-not-merged"
		} else if strings.Contains(why, "unpublished") || strings.Contains(why, "uncaptured") {
			sig = "uploads-blocked"
		}
		f.Violate(Violation{"C08", "honest-traffic-flows", sig,
			fmt.Sprintf("after %d hostile/corrupt blobs and a fault-free drain: %s", m.placed, why)})
	}
}

func init() {
	RegisterProfile(fleetProfile("fleet-hostile", "C08", FleetRun{
		Gen: func(t *Tape) FleetCfg {
			c := swarmBase(t)
			c.N = 2 + t.Choose("cfg-n11", 2)
			swarmFaults(t, &c)
			c.CrashRate = pick(t, "cfg-crash11", 8, 0, 20)
			c.DrainFactor = 20
			return c
		},
		Mons: func(f *Fleet) []Monitor { return []Monitor{&monHostile{}} },
		Custom: func(f *Fleet) {
			f.RunWorkload()
			if !f.Failed() {
				// every undecodable blob that is newer than an instance's
				// newest decodable one costs one listing round to skip
				m := f.Mon[0].(*monHostile)
				f.Drain(f.Cfg.DrainTime() + time.Duration(m.placed)*(f.Cfg.StPoll+f.Cfg.Retry+f.Cfg.Poll))
			}
		},
		Post: func(f *Fleet, r *RunResult) {
			m := f.Mon[0].(*monHostile)
			r.Counts["hostile_blobs"] = m.placed
			r.Nontrivial = len(m.bad) > 0 && f.Stats.Loads > 0
		},
	}))
}

func le32(v uint32) string {
	return string([]byte{byte(v), byte(v >> 8), byte(v >> 16), byte(v >> 24)})
}
func le64(v uint64) string {
	b := make([]byte, 8)
	for i := range b {
		b[i] = byte(v >> (8 * i))
	}
	return string(b)
}

func init() {
	RegisterProfile(fleetProfile("fleet-shadow", "C11", FleetRun{
		Gen: func(t *Tape) FleetCfg {
			c := swarmBase(t)
			c.Native = false
			c.N = 2 + t.Weighted("cfg-n12", []int{3, 1})
			swarmFaults(t, &c)
			c.CrashRate = 0 // steady state (the statement scopes out changes made while the syncer is down)
			w := &c.Work
			w.DBIs = []string{"d1"}
			w.DBIKeys = map[string][]string{}
			w.DBIFlags = map[string]uint{}
			if t.Choose("cfg-int4", 2) == 1 {
				w.DBIs = append(w.DBIs, "i4")
				w.DBIFlags["i4"] = 0x08
				w.DBIKeys["i4"] = []string{le32(0), le32(1), le32(2), le32(256), le32(1 << 31), le32(1<<32 - 1), le32(0x01000000)}
			}
			if t.Choose("cfg-int8", 3) == 2 {
				w.DBIs = append(w.DBIs, "i8")
				w.DBIFlags["i8"] = 0x08
				w.DBIKeys["i8"] = []string{le64(0), le64(1), le64(1 << 32), le64(1 << 63), le64(1<<64 - 1), le64(0x0100000000000000)}
			}
			if t.Choose("cfg-late-dbi", 2) == 1 {
				w.DBIs = append(w.DBIs, "zlate") // a DBI the application creates while the syncer runs
			}
			w.EmptyVal = pick(t, "cfg-empty12", 0, 0, 40, 120)
			w.DelRate = pick(t, "cfg-del12", 250, 400)
			if t.Choose("cfg-sweeper12", 3) == 2 {
				// tomb sweeper on the shadow DBIs, short retention on the fake clock
				sw := &c.Sweeper
				sw.Enabled = true
				sw.RetentionDays = pick(t, "cfg-retention12", float32(15.0/86400), float32(40.0/86400))
				sw.FirstInterval, sw.Interval = 4*time.Second, 7*time.Second
				sw.LockDuration, sw.ReleaseDuration = 50*time.Millisecond, 50*time.Millisecond
				c.BigDelta = pick(t, "cfg-bigdelta12", 150, 300)
			}
			return c
		},
		Mons: func(f *Fleet) []Monitor {
			if f.T.Chance("cfg-receive-only12", 150) {
				// a receive-only instance mirrors its application's data too
				f.Nodes[len(f.Nodes)-1].Opt.ReceiveOnly = true
				f.Sim.Logf("cfg receive-only=%s", f.Nodes[len(f.Nodes)-1].Name)
			}
			return []Monitor{&MonC11{}}
		},
		Post: func(f *Fleet, r *RunResult) {
			m := f.Mon[0].(*MonC11)
			r.Counts["ls_txns_checked"] = m.Checked
			r.Counts["captures_checked"] = m.Captures
			r.Nontrivial = m.Captures > 0 && f.Stats.Loads > 0
		},
	}))
}
