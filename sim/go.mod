module lssim

go 1.25.11

godebug randseednop=0

require github.com/PowerDNS/lightningstream v0.0.0

require (
	github.com/CrowdStrike/csproto v0.35.0
	github.com/PowerDNS/lmdb-go v1.9.3
	github.com/PowerDNS/simpleblob v1.0.0
	github.com/c2h5oh/datasize v0.0.0-20231215233829-aa82cc1e6500
	github.com/gogo/protobuf v1.3.2
	github.com/klauspost/compress v1.18.6
	github.com/prometheus/client_golang v1.23.2
	github.com/samber/lo v1.52.0
	github.com/sirupsen/logrus v1.9.4
	github.com/spf13/cobra v1.10.2
	github.com/stretchr/testify v1.11.1
	github.com/wojas/go-healthz v0.2.0
	go.uber.org/atomic v1.11.0
	golang.org/x/sync v0.20.0
	gopkg.in/yaml.v2 v2.4.0
)

require (
	github.com/Azure/azure-sdk-for-go/sdk/azcore v1.21.1 // indirect
	github.com/Azure/azure-sdk-for-go/sdk/azidentity v1.13.1 // indirect
	github.com/Azure/azure-sdk-for-go/sdk/internal v1.12.0 // indirect
	github.com/Azure/azure-sdk-for-go/sdk/storage/azblob v1.6.3 // indirect
	github.com/AzureAD/microsoft-authentication-library-for-go v1.7.2 // indirect
	github.com/PowerDNS/go-tlsconfig v1.0.1 // indirect
	github.com/beorn7/perks v1.0.1 // indirect
	github.com/cespare/xxhash/v2 v2.3.0 // indirect
	github.com/cpuguy83/go-md2man/v2 v2.0.7 // indirect
	github.com/davecgh/go-spew v1.1.1 // indirect
	github.com/dustin/go-humanize v1.0.1 // indirect
	github.com/go-logr/logr v1.4.3 // indirect
	github.com/golang-jwt/jwt/v5 v5.3.1 // indirect
	github.com/golang/protobuf v1.5.4 // indirect
	github.com/google/uuid v1.6.0 // indirect
	github.com/inconshreveable/mousetrap v1.1.0 // indirect
	github.com/klauspost/cpuid/v2 v2.2.11 // indirect
	github.com/klauspost/crc32 v1.3.0 // indirect
	github.com/kylelemons/godebug v1.1.0 // indirect
	github.com/minio/crc64nvme v1.1.1 // indirect
	github.com/minio/md5-simd v1.1.2 // indirect
	github.com/minio/minio-go/v7 v7.2.0 // indirect
	github.com/munnerz/goautoneg v0.0.0-20191010083416-a7dc8b61c822 // indirect
	github.com/philhofer/fwd v1.2.0 // indirect
	github.com/pkg/browser v0.0.0-20240102092130-5ac0b6a4141c // indirect
	github.com/pmezard/go-difflib v1.0.0 // indirect
	github.com/prometheus/client_model v0.6.2 // indirect
	github.com/prometheus/common v0.68.0 // indirect
	github.com/prometheus/procfs v0.16.1 // indirect
	github.com/rs/xid v1.6.0 // indirect
	github.com/russross/blackfriday/v2 v2.1.0 // indirect
	github.com/spf13/pflag v1.0.10 // indirect
	github.com/tinylib/msgp v1.6.1 // indirect
	github.com/zeebo/xxh3 v1.1.0 // indirect
	go.opentelemetry.io/contrib/instrumentation/net/http/otelhttp v0.63.0 // indirect
	go.yaml.in/yaml/v3 v3.0.4 // indirect
	golang.org/x/crypto v0.51.0 // indirect
	golang.org/x/net v0.55.0 // indirect
	golang.org/x/sys v0.45.0 // indirect
	golang.org/x/text v0.37.0 // indirect
	google.golang.org/protobuf v1.36.11 // indirect
	gopkg.in/ini.v1 v1.67.2 // indirect
	gopkg.in/yaml.v3 v3.0.1 // indirect
)

replace github.com/PowerDNS/lightningstream => /repo

// the same sources as v1.9.3 plus a transaction hook (see third_party/lmdb-go/lmdb/txn.go)
replace github.com/PowerDNS/lmdb-go => ../third_party/lmdb-go

replace github.com/CrowdStrike/csproto => github.com/wojas/csproto v0.0.0-20260107092112-0e013c7984a2
