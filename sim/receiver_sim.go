package lssim

import (
	"context"
	"fmt"
	"sort"
	"time"

	"github.com/PowerDNS/lightningstream/snapshot"
	"github.com/PowerDNS/lightningstream/snapshot/gogosnapshot"
	"github.com/PowerDNS/lightningstream/syncer/events"
	"github.com/PowerDNS/lightningstream/syncer/hooks"
	"github.com/PowerDNS/lightningstream/syncer/receiver"
	"github.com/prometheus/client_golang/prometheus"
	"github.com/prometheus/client_golang/prometheus/collectors"
	"github.com/sirupsen/logrus"
)

// receiver-sim: the real receiver.Receiver (Run loop, one Downloader per
// instance, the two token limits) against the simulated bucket. The harness
// plays the merge loop (Next/Close at drawn relative speeds) and the rest of
// the world: instances appearing, publishing, being cleaned; undecodable
// blobs; failing, slow List/Load calls; vanishing objects.

// GoTask runs fn as a scheduled task of the node.
func (s *Sim) GoTask(node *Node, role, name string, fn func()) {
	go func() {
		t := s.Register(node, node.Inc, role, name)
		s.park(t, role+":start")
		fn()
		s.markExited(t)
	}()
}

// YieldHere parks the calling task (must be a registered task).
func (s *Sim) YieldHere(point string) {
	if t := s.lookup(); t != nil {
		s.park(t, point)
	}
}

// gaugeBase holds the gauge values at the start of the current run: earlier
// runs in the same process may have left tokens behind (a violation found
// during minimisation, say); only the difference belongs to this run.
var gaugeBase = map[string]int{}

func gaugeActive(db, limit string) int {
	return gaugeActiveRaw(db, limit) - gaugeBase[db+"/"+limit]
}

func gaugeActiveRaw(db, limit string) int {
	mfs, err := prometheus.DefaultGatherer.Gather()
	if err != nil {
		return -1
	}
	for _, mf := range mfs {
		if mf.GetName() != "lightningstream_climit_active" {
			continue
		}
		for _, m := range mf.GetMetric() {
			ok1, ok2 := false, false
			for _, l := range m.GetLabel() {
				if l.GetName() == "lmdb" && l.GetValue() == db {
					ok1 = true
				}
				if l.GetName() == "limit_name" && l.GetValue() == limit {
					ok2 = true
				}
			}
			if ok1 && ok2 {
				return int(m.GetGauge().GetValue())
			}
		}
	}
	return 0
}

func validBlob(db, inst string, ts time.Time, n int) []byte {
	s := &gogosnapshot.Snapshot{FormatVersion: 3, CompatVersion: 1}
	s.Meta.DatabaseName = db
	s.Meta.InstanceID = inst
	s.Meta.TimestampNano = uint64(ts.UnixNano())
	s.Meta.LmdbTxnID = int64(n)
	s.Databases = []*gogosnapshot.DBI{{Name: "d", Entries: []gogosnapshot.KV{{Key: []byte("k"), Value: []byte(fmt.Sprintf("%s.%d", inst, n)), TimestampNano: uint64(ts.UnixNano())}}}}
	b, _ := RefEncode(s)
	return b
}

func runReceiverSim(env *RunEnv) {
	sim, t := env.Sim, env.Tape
	db := "rdb"
	c, _ := DefaultConf("me", true)
	c.StoragePollInterval = pick(t, "rc-poll", time.Second, 200*time.Millisecond, 3*time.Second)
	c.StorageRetryInterval = pick(t, "rc-retry", 500*time.Millisecond, 2*time.Second)
	c.MemoryDownloadedSnapshots = 1 + t.Choose("rc-memdl", 3)
	c.MemoryDecompressedSnapshots = 1 + t.Choose("rc-memdec", 3)
	mergePoll := pick(t, "rc-mergepoll", time.Second, 200*time.Millisecond)
	slowMerge := pick(t, "rc-slow", 0, 3, 12) // extra yields while holding a snapshot
	b := NewSimBucket(sim)
	on := func(k string) bool { return t.Choose("rc-f-"+k, 3) == 2 }
	fc := FaultCfg{Active: true, MaxLatency: 3 * time.Second, StaleWindow: 2 * time.Second}
	if on("list") {
		fc.ListErr = 120
	}
	if on("load") {
		fc.LoadErr = 150
	}
	if on("vanish") {
		fc.Vanish = 80
	}
	if on("lat") {
		fc.Latency = 150
	}
	if on("stale") {
		fc.StaleList = 100
	}
	b.Cfg = fc
	sim.Logf("cfg receiver-sim db=%s poll=%s retry=%s memdl=%d memdec=%d mergepoll=%s slow=%d faults=%+v", db, c.StoragePollInterval, c.StorageRetryInterval, c.MemoryDownloadedSnapshots, c.MemoryDecompressedSnapshots, mergePoll, slowMerge, fc)

	var viol []Violation
	violate := func(o, sig, msg string) {
		if len(viol) == 0 {
			viol = append(viol, Violation{"C16", o, sig, msg})
			sim.Logf("VIOLATION C16/%s [%s]: %s", o, sig, msg)
		}
	}

	me := &Node{Name: "me", sim: sim, Inc: 1, Running: true}
	ctx, cancel := context.WithCancel(context.WithValue(context.Background(), nodeKeyT{}, &incRef{node: me, inc: 1}))
	gaugeBase[db+"/download"] = gaugeActiveRaw(db, "download")
	gaugeBase[db+"/decompress"] = gaugeActiveRaw(db, "decompress")
	r := receiver.New(b, c, db, logrus.StandardLogger(), "me", events.New(), hooks.New())
	deregisterHealthFor(db)

	// world
	ninst := 1 + t.Choose("rc-ninst", 6) // may exceed the token limits
	includeOwn := t.Chance("rc-own", 300)
	type inst struct {
		name    string
		last    time.Time
		n       int
		corrupt map[string]bool
	}
	var insts []*inst
	for i := 0; i < ninst; i++ {
		insts = append(insts, &inst{name: fmt.Sprintf("i%d", i), corrupt: map[string]bool{}})
	}
	if includeOwn {
		insts = append(insts, &inst{name: "me", corrupt: map[string]bool{}})
	}
	corruptNames := map[string]bool{}
	publish := func(in *inst, corrupt bool) {
		ts := time.Now()
		if !ts.After(in.last) {
			return
		}
		in.n++
		in.last = ts
		name := snapName(db, in.name, ts, "")
		data := validBlob(db, in.name, ts, in.n)
		if corrupt {
			switch t.Choose("rc-corrupt-kind", 3) {
			case 0:
				data = data[:len(data)/2]
			case 1:
				data = []byte("not a gzip stream at all")
			case 2:
				data = GzipBytes([]byte{0x0a, 0xff, 0xff, 0xff, 0x0f, 1, 2, 3}) // length past the end
			}
			corruptNames[name] = true
			sim.Probe("c16-corrupt-published")
		}
		b.Put(name, data, "world")
	}

	// delivered snapshots by instance, in delivery order
	delivered := map[string][]string{}
	holding := 0
	mergeDone := false
	stopMerge := false
	sim.GoTask(me, "merge", "", func() {
		// like syncLoop: initial listing including own snapshots
		for {
			err := r.RunOnce(ctx, true)
			if err == nil {
				break
			}
			time.Sleep(time.Second)
			sim.YieldHere("merge:initial-retry")
			if stopMerge {
				mergeDone = true
				return
			}
		}
		go func() { _ = r.Run(ctx) }()
		for !stopMerge {
			sim.YieldHere("merge:loop")
			for {
				instName, upd := r.Next()
				if instName == "" {
					break
				}
				if upd.Snapshot == nil {
					violate("delivery", "nil-snapshot", "Next() returned an update for "+instName+" without a snapshot")
				}
				delivered[instName] = append(delivered[instName], upd.NameInfo.FullName)
				sim.Logf("  deliver %s %s", instName, upd.NameInfo.FullName)
				holding++
				for i := 0; i < slowMerge && t.Chance("rc-hold", 700); i++ {
					sim.YieldHere("merge:holding")
				}
				upd.Close()
				holding--
				sim.YieldHere("merge:closed")
			}
			time.Sleep(mergePoll)
			sim.YieldHere("merge:wake")
		}
		mergeDone = true
	})

	checkLimits := func() {
		if a := gaugeActive(db, "download"); a > c.MemoryDownloadedSnapshots {
			violate("memory-limit", "download-limit-exceeded", fmt.Sprintf("%d downloaded snapshots in memory, memory_downloaded_snapshots is %d", a, c.MemoryDownloadedSnapshots))
		}
		if a := gaugeActive(db, "decompress"); a > c.MemoryDecompressedSnapshots {
			violate("memory-limit", "decompress-limit-exceeded", fmt.Sprintf("%d decompressed snapshots in memory, memory_decompressed_snapshots is %d", a, c.MemoryDecompressedSnapshots))
		}
	}

	steps := 200 + t.Choose("rc-steps", 400)
	pubBudget := 5 + t.Choose("rc-pubs", 40)
	for step := 0; step < steps && len(viol) == 0; step++ {
		parked := sim.Quiesce()
		checkLimits()
		if len(viol) > 0 {
			break
		}
		w := []int{0, 0, 100, 25}
		if len(parked) > 0 {
			w[0] = 700
		}
		if pubBudget > 0 {
			w[1] = 150
		}
		switch t.Weighted("rc-act", w) {
		case 0:
			tk := parked[t.Choose("run", len(parked))]
			sim.Sleep(time.Duration(1+t.Choose("dus", 3000)) * time.Microsecond)
			sim.Release(tk)
		case 1:
			pubBudget--
			sim.Sleep(time.Duration(1+t.Choose("dus", 3000)) * time.Microsecond)
			publish(insts[t.Choose("rc-pub-inst", len(insts))], t.Chance("rc-corrupt", 150))
		case 2:
			d := time.Duration(1+t.Choose("rc-wait-ms", 3000)) * time.Millisecond
			if len(parked) == 0 {
				sim.Idle(d)
			} else {
				sim.Sleep(d)
			}
		case 3:
			// a cleaner removes an old (non-newest) or any snapshot
			// (as a real cleaner does: a superseded snapshot, or everything
			// of an instance that is considered dead)
			in := insts[t.Choose("rc-clean-inst", len(insts))]
			var own []string
			for _, n := range b.Names() {
				if pn, ok := ParseSnapName(n); ok && pn.Instance == in.name {
					own = append(own, n)
				}
			}
			if len(own) > 1 && !t.Chance("rc-clean-all", 150) {
				n := own[t.Choose("rc-clean", len(own)-1)] // never the newest
				delete(b.objs, n)
				sim.Logf("  cleaned %s", n)
			} else if len(own) > 0 && t.Chance("rc-clean-dead", 300) {
				for _, n := range own {
					delete(b.objs, n)
				}
				sim.Logf("  cleaned all of %s", in.name)
			}
		}
	}

	// Liveness: faults off, bucket stable. Within a bounded time the newest
	// decodable snapshot of every other instance has been handed over.
	if len(viol) == 0 {
		b.Cfg.Active = false
		settle := 6*c.StoragePollInterval + 4*c.StorageRetryInterval + 4*mergePoll + 3*time.Second
		end := sim.Now() + settle
		for sim.Now() < end && len(viol) == 0 {
			parked := sim.Quiesce()
			checkLimits()
			if len(parked) == 0 {
				sim.Idle(end - sim.Now())
				continue
			}
			sim.Sleep(50 * time.Microsecond)
			sim.Release(parked[t.Choose("run", len(parked))])
		}
		sim.Quiesce()
		newest := map[string]string{}
		for _, n := range b.Names() {
			pn, ok := ParseSnapName(n)
			if !ok || pn.DB != db || corruptNames[n] {
				continue
			}
			if cur, ok := newest[pn.Instance]; !ok || n > cur {
				newest[pn.Instance] = n
			}
		}
		for _, in := range sortedKeys(newest) {
			want := newest[in]
			got := ""
			if d := delivered[in]; len(d) > 0 {
				got = d[len(d)-1]
			}
			if in == "me" {
				// own snapshots are only delivered from the start-up listing
				continue
			}
			if got != want && len(viol) == 0 {
				violate("eventual-delivery", "newest-not-delivered",
					fmt.Sprintf("instance %s: newest decodable snapshot %s was not handed to the merge loop within %s after the faults stopped (last delivered: %q)", in, want, settle, got))
			}
		}
	}
	// Nothing undecodable is ever delivered. (No ordering oracle: when the
	// newest blob of an instance turns out to be undecodable, the previous one
	// is legitimately promoted and delivered again.)
	for _, in := range sortedKeys(delivered) {
		d := delivered[in]
		for _, n := range d {
			if corruptNames[n] && len(viol) == 0 {
				violate("delivery", "corrupt-delivered", "undecodable blob "+n+" was delivered")
			}
		}
	}
	// Drain: stop the merge loop, take and close whatever is still ready;
	// afterwards no token may be held (nothing leaked).
	stopMerge = true
	for i := 0; i < 200 && !mergeDone; i++ {
		parked := sim.Quiesce()
		if len(parked) == 0 {
			sim.Idle(5 * time.Second)
			continue
		}
		// prefer the merge task so that it can finish
		var pickT *Task
		for _, p := range parked {
			if p.Role == "merge" {
				pickT = p
			}
		}
		if pickT == nil {
			pickT = parked[0]
		}
		sim.Release(pickT)
	}
	// let in-flight downloads finish, then take what is ready
	for i := 0; i < 400; i++ {
		parked := sim.Quiesce()
		var others []*Task
		for _, p := range parked {
			if p.Role == "downloader" {
				others = append(others, p)
			}
		}
		if len(others) == 0 {
			break
		}
		sim.Release(others[0])
	}
	sim.Quiesce()
	for {
		instName, upd := r.Next()
		if instName == "" {
			break
		}
		upd.Close()
	}
	if len(viol) == 0 {
		if a := gaugeActive(db, "decompress"); a != 0 {
			violate("no-leak", "decompress-token-leaked", fmt.Sprintf("%d decompressed-snapshot tokens still held after everything was delivered and closed", a))
		}
	}
	cancel()
	me.deadInc = 1
	for i := 0; i < 50; i++ {
		ps := sim.Quiesce()
		if len(ps) == 0 {
			break
		}
		for _, tk := range ps {
			sim.Kill(tk)
		}
	}
	if len(viol) == 0 {
		if a := gaugeActive(db, "download"); a != 0 {
			violate("no-leak", "download-token-leaked", fmt.Sprintf("%d download tokens still held after all downloaders stopped", a))
		}
	}
	env.Res.Violations = viol
	env.Res.SimMs = int64(sim.Now() / time.Millisecond)
	nd := 0
	for _, d := range delivered {
		nd += len(d)
	}
	env.Res.Counts = map[string]int{"delivered": nd, "instances": len(insts), "corrupt": len(corruptNames)}
	env.Res.Nontrivial = nd >= 2
}

func deregisterHealthFor(db string) {
	saved := DBName
	_ = saved
	for _, k := range []string{"store", "list", "load"} {
		healthzDeregister(fmt.Sprintf("%s_storage_%s_failed_duration", db, k))
	}
}

func init() {
	// The default registry's Go runtime and process collectors make every
	// Gather expensive; the harness only needs the token gauges.
	prometheus.Unregister(collectors.NewGoCollector())
	prometheus.Unregister(collectors.NewProcessCollector(collectors.ProcessCollectorOpts{}))
	RegisterProfile(&Profile{Name: "receiver-sim", Property: "C16", Run: runReceiverSim})
	_ = snapshot.KindSnapshot
	_ = sort.Strings
}
