package lssim

import (
	"bytes"
	"context"
	"fmt"
	"sort"
	"strings"
	"time"

	"github.com/PowerDNS/lightningstream/lmdbenv"
	"github.com/PowerDNS/lightningstream/lmdbenv/header"
	"github.com/PowerDNS/lightningstream/snapshot"
	"github.com/PowerDNS/lightningstream/syncer"
	"github.com/PowerDNS/lmdb-go/lmdb"
	"github.com/c2h5oh/datasize"
)

// atomic-sim (C18): the real Syncer.LoadOnce against a real LMDB with
// existing data. A foreign peer (independent encoder) delivers multi-DBI
// snapshots; the point of failure is drawn over: format / compatibility
// version 0..4, unsupported or inconsistent transform, a DBI that cannot be
// created safely (pre-v3 snapshot, shadow mode), a malformed entry at entry k
// of DBI j, a private DBI, a map that fills up, cancellation after DBI j.
// A concurrent reader looks at the LMDB at every point inside the merge.

type atomicFault int

const (
	afNone atomicFault = iota
	afFV0
	afCompatNew
	afFVNewCompatOK
	afTransformUnknown
	afTransformInconsistent
	afNativeTransform
	afUncreatableDBI
	afMalformedEntry
	afPrivateDBI
	afMapFull
	afCancel
	afCount
)

var atomicFaultNames = []string{"none", "fv0", "compat-too-new", "fv-newer-compat-ok", "transform-unknown", "transform-inconsistent",
	"native-transform", "uncreatable-dbi", "malformed-entry", "private-dbi", "map-full", "cancel"}

func runAtomicSim(env *RunEnv) {
	sim, t := env.Sim, env.Tape
	native := t.Choose("at-mode", 2) == 0
	smallMap := t.Choose("at-smallmap", 4) == 3
	mapSize := 64 * datasize.MB
	if smallMap {
		mapSize = 160 * datasize.KB
	}
	e, err := lmdbenv.NewWithOptions(env.Root+"/atomic", lmdbenv.Options{Create: true, MapSize: mapSize, EnvFlags: lmdb.NoSync | lmdb.NoMetaSync})
	if err != nil {
		env.Res.HarnessErr = err.Error()
		return
	}
	defer e.Close()
	var viol []Violation
	violate := func(o, sig, msg string) {
		if len(viol) == 0 {
			viol = append(viol, Violation{"C18", o, sig, msg})
			sim.Logf("VIOLATION C18/%s [%s]: %s", o, sig, msg)
		}
	}
	c, lc := DefaultConf("victim", native)
	s, err := syncer.New(DBName, e, NewSimBucket(sim), c, lc, syncer.Options{})
	if err != nil {
		env.Res.HarnessErr = err.Error()
		return
	}
	sim.Quiesce()
	deregisterHealth()
	sim.Logf("cfg atomic-sim native=%v smallmap=%v", native, smallMap)

	// the reader goroutine: looks at the LMDB on request
	req := make(chan struct{})
	resp := make(chan string)
	quit := make(chan struct{})
	go func() {
		for {
			select {
			case <-req:
				st, err := DumpEnv(e)
				if err != nil {
					resp <- "error: " + err.Error()
				} else {
					resp <- st.ContentFingerprint()
				}
			case <-quit:
				return
			}
		}
	}()
	defer close(quit)

	tsBase := uint64(1000)
	model := Logical{} // header content by application DBI name
	faultsSeen := map[string]int{}
	rounds := 3 + t.Choose("at-rounds", 6)
	applied := 0
	for round := 0; round < rounds && len(viol) == 0; round++ {
		fault := afNone
		if round > 0 && t.Chance("at-fault", 700) {
			fault = atomicFault(1 + t.Choose("at-fault-kind", int(afCount)-1))
		}
		if fault == afNativeTransform && !native {
			fault = afTransformUnknown
		}
		if fault == afUncreatableDBI && native {
			fault = afMalformedEntry
		}
		if fault == afMapFull && !smallMap {
			fault = afCancel
		}
		// the snapshot
		snap := &WSnap{FV: 3, Compat: 1}
		if t.Chance("at-oldfv", 300) {
			snap.FV = uint32(1 + t.Choose("at-fv", 2))
		}
		snap.Meta = WMeta{InstanceID: "peer", DatabaseName: DBName, TimestampNano: uint64(time.Now().UnixNano())}
		ndbi := 2 + t.Choose("at-ndbi", 2)
		names := []string{"d1", "d2", "d3"}
		for i := len(names) - 1; i > 0; i-- {
			j := t.Choose("at-dshuf", i+1)
			names[i], names[j] = names[j], names[i]
		}
		failDBI := t.Choose("at-faildbi", ndbi)
		tsBase += 10
		for i := 0; i < ndbi; i++ {
			d := WDBI{Name: names[i]}
			nent := 1 + t.Choose("at-nent", 6)
			for j := 0; j < nent; j++ {
				ev := WKV{Key: []byte(fmt.Sprintf("k%d", j)), TS: tsBase + uint64(t.Choose("at-ts", 3)) - 1}
				switch t.Choose("at-vkind", 4) {
				case 0:
					ev.Val = []byte(fmt.Sprintf("r%d.%d.%d", round, i, j))
				case 1:
					if snap.FV >= 2 {
						ev.Flags = 1 // deleted
					}
				case 2:
					ev.Val = []byte(fmt.Sprintf("R%d", round)) // may equal what another entry holds
				case 3:
					ev.Val = nil // empty value: a deletion in version 1, a live empty value later
				}
				if fault == afMapFull && i == failDBI {
					ev.Val = bytes.Repeat([]byte("F"), 30000)
					ev.Flags = 0
				}
				d.Entries = append(d.Entries, ev)
			}
			snap.DBIs = append(snap.DBIs, d)
		}
		mustFail := false
		switch fault {
		case afFV0:
			snap.FV, mustFail = 0, true
		case afCompatNew:
			snap.Compat, mustFail = 4+uint32(t.Choose("at-compat", 3)), true
			snap.FV = snap.Compat
		case afFVNewCompatOK:
			snap.FV, snap.Compat = 4, uint32(1+t.Choose("at-compat-ok", 3))
		case afTransformUnknown:
			snap.DBIs[failDBI].Transform, mustFail = "zstd_values_v7", true
		case afTransformInconsistent:
			snap.FV = 3
			if t.Choose("at-incons", 2) == 0 {
				snap.DBIs[failDBI].Flags = uint64(lmdb.DupSort) // dupsort flag without the transform
			} else {
				snap.DBIs[failDBI].Transform = snapshot.TransformDupSortHackV1 // transform without the flag
			}
			mustFail = true
		case afNativeTransform:
			snap.DBIs[failDBI].Transform = snapshot.TransformDupSortHackV1
			snap.DBIs[failDBI].Flags = uint64(lmdb.DupSort)
			mustFail = true
		case afUncreatableDBI:
			snap.FV = uint32(1 + t.Choose("at-fv12", 2))
			snap.DBIs[failDBI].Name = fmt.Sprintf("new%d", round)
			for j := range snap.DBIs[failDBI].Entries {
				if snap.FV < 2 {
					snap.DBIs[failDBI].Entries[j].Flags = 0
				}
			}
			mustFail = true
		case afPrivateDBI:
			snap.DBIs[failDBI].Name = "_sync_secret"
		}
		if snap.FV < 2 {
			for i := range snap.DBIs {
				for j := range snap.DBIs[i].Entries {
					snap.DBIs[i].Entries[j].Flags = 0
				}
			}
		}
		if !native && snap.FV < 3 {
			// shadow mode cannot safely create a DBI from a pre-v3 snapshot
			existing, _ := DumpEnv(e)
			for _, d := range snap.DBIs {
				if _, ok := existing.DBIs[d.Name]; !ok && !strings.HasPrefix(d.Name, syncPrefix) {
					mustFail = true
				}
			}
		}
		pb := snap.Encode(nil)
		if fault == afMalformedEntry {
			// corrupt one entry of one DBI so that the top level still parses:
			// the key length inside the entry points past the entry
			bad := *snap
			bad.DBIs = append([]WDBI(nil), snap.DBIs...)
			d := bad.DBIs[failDBI]
			d.Entries = append([]WKV(nil), d.Entries...)
			k := t.Choose("at-badentry", len(d.Entries))
			d.Entries[k].Key = []byte("\xff\xff\xff\xff-marker-for-corruption")
			bad.DBIs[failDBI] = d
			pb = bad.Encode(nil)
			needle := append([]byte{0x0a, byte(len(d.Entries[k].Key))}, d.Entries[k].Key...)
			if idx := bytes.Index(pb, needle); idx >= 0 {
				pb[idx+1] = 0x7f // key claims 127 bytes, the entry is shorter
				mustFail = true
			} else {
				fault = afNone
			}
		}
		loaded, err := snapshot.LoadData(GzipBytes(pb))
		if err != nil {
			sim.Logf("  round %d: snapshot rejected at decode time (%v): not a merge", round, err)
			continue
		}
		faultsSeen[atomicFaultNames[fault]]++
		before, _ := DumpEnv(e)
		ctx, cancel := context.WithCancel(context.Background())
		cancelAfter := -1
		if fault == afCancel {
			cancelAfter = t.Choose("at-cancel-after", ndbi)
			mustFail = true
		}
		merged := 0
		sawPartial := ""
		sim.OnInWriteTxn = func(tk *Task, _ context.Context, point string) {
			if point != "loadonce:dbi-merged" {
				return
			}
			// a concurrent reader never observes a partially merged snapshot
			req <- struct{}{}
			if fp := <-resp; fp != before.ContentFingerprint() && sawPartial == "" {
				sawPartial = fmt.Sprintf("after DBI %d of the merge a concurrent reader saw other content than before the merge", merged)
			}
			if merged == cancelAfter {
				cancel()
			}
			merged++
		}
		upd := snapshot.Update{Snapshot: loaded, NameInfo: snapshot.NameInfo{Kind: snapshot.KindSnapshot, InstanceID: "peer", FullName: fmt.Sprintf("x%d", round)}}
		_, _, lerr := s.LoadOnce(ctx, e, "peer", upd, header.TxnID(before.LastTxnID))
		sim.OnInWriteTxn = nil
		cancel()
		after, _ := DumpEnv(e)
		desc := fmt.Sprintf("round %d fault=%s fv=%d compat=%d dbis=%v failDBI=%d", round, atomicFaultNames[fault], snap.FV, snap.Compat, dbiNames(snap), failDBI)
		sim.Logf("  %s -> err=%v", desc, lerr)
		if sawPartial != "" {
			violate("reader-isolation", "partial-merge-visible", desc+": "+sawPartial)
			break
		}
		if lerr != nil {
			if after.Fingerprint() != before.Fingerprint() {
				violate("all-or-nothing", "failed-merge-left-traces", fmt.Sprintf("%s: LoadOnce failed (%v) but the LMDB changed: txn %d -> %d; %s", desc, lerr, before.LastTxnID, after.LastTxnID, firstDiff(before, after)))
			}
			isFull := strings.Contains(lerr.Error(), "MDB_MAP_FULL")
			if !mustFail && !isFull {
				violate("valid-accepted", "valid-snapshot-refused", desc+": a snapshot this build can read was refused: "+lerr.Error())
			}
			continue
		}
		if mustFail {
			violate("refused", "invalid-snapshot-merged", desc+": this snapshot must be refused but LoadOnce reported success")
			break
		}
		applied++
		// success: compare with the reference merge
		exp := Logical{}
		for d, m := range model {
			exp[d] = map[string]Version{}
			for k, v := range m {
				exp[d][k] = v
			}
		}
		tie := map[string]bool{}
		for _, d := range snap.DBIs {
			if strings.HasPrefix(d.Name, syncPrefix) {
				continue
			}
			if exp[d.Name] == nil {
				exp[d.Name] = map[string]Version{}
			}
			for _, en := range d.Entries {
				v := Version{TS: en.TS, Deleted: en.Flags&1 != 0, Val: string(en.Val)}
				if snap.FV < 2 && len(en.Val) == 0 {
					v.Deleted = true
				}
				if v.Deleted {
					v.Val = ""
				}
				cur, ok := exp[d.Name][string(en.Key)]
				switch {
				case !ok || v.TS > cur.TS:
					exp[d.Name][string(en.Key)] = v
				case v.TS == cur.TS && v != cur:
					tie[d.Name+"/"+string(en.Key)] = true // tie-break not judged here (C02)
				}
			}
		}
		got, perrs := after.LogicalContent(native)
		if len(perrs) > 0 {
			violate("merge-result", "unparsable-value", desc+": "+perrs[0])
			break
		}
		for _, dn := range sortedKeys(exp) {
			for _, k := range sortedKeys(exp[dn]) {
				if tie[dn+"/"+k] {
					continue
				}
				g, ok := got[dn][k]
				if !ok || g != exp[dn][k] {
					violate("merge-result", "wrong-merge-result", fmt.Sprintf("%s: %s/%q holds %v (present=%v), the documented meaning of the snapshot gives %v", desc, dn, k, g, ok, exp[dn][k]))
				}
			}
		}
		for _, dn := range after.Names {
			if strings.Contains(dn, "_sync_secret") {
				violate("private-ignored", "private-dbi-merged", desc+": the private DBI of the snapshot left a trace: "+dn)
			}
		}
		if !native && len(viol) == 0 {
			// application DBIs hold exactly the live entries
			app := after.AppDBIs()
			for _, dn := range sortedKeys(got) {
				live := map[string]string{}
				for k, v := range got[dn] {
					if !v.Deleted && v.Val != "" {
						live[k] = v.Val
					}
				}
				am := map[string][]byte{}
				if d, ok := app[dn]; ok {
					am = d.Map()
				}
				for k, v := range live {
					if string(am[k]) != v {
						violate("merge-result", "app-dbi-not-mirrored", fmt.Sprintf("%s: application DBI %s key %q holds %q, merged state says %q", desc, dn, k, am[k], v))
					}
				}
			}
		}
		// tie keys: adopt whatever the instance chose
		for id := range tie {
			p := strings.SplitN(id, "/", 2)
			if g, ok := got[p[0]][p[1]]; ok {
				exp[p[0]][p[1]] = g
			}
		}
		model = exp
	}
	env.Res.Violations = viol
	env.Res.Counts = map[string]int{"rounds": rounds, "merged": applied}
	for k, v := range faultsSeen {
		env.Res.Counts["fault:"+k] = v
	}
	env.Res.Nontrivial = applied >= 1 && len(faultsSeen) >= 2
}

func dbiNames(s *WSnap) []string {
	var out []string
	for _, d := range s.DBIs {
		out = append(out, d.Name)
	}
	return out
}

func firstDiff(a, b *NodeState) string {
	names := map[string]bool{}
	for _, n := range a.Names {
		names[n] = true
	}
	for _, n := range b.Names {
		names[n] = true
	}
	var ns []string
	for n := range names {
		ns = append(ns, n)
	}
	sort.Strings(ns)
	for _, n := range ns {
		x, y := a.DBIs[n], b.DBIs[n]
		if x == nil || y == nil {
			return fmt.Sprintf("DBI %s exists before=%v after=%v", n, x != nil, y != nil)
		}
		if !samePairs(x, y) {
			return fmt.Sprintf("DBI %s content differs (%d vs %d entries)", n, len(x.Pairs), len(y.Pairs))
		}
	}
	return "only the transaction id differs"
}

func init() {
	RegisterProfile(&Profile{Name: "atomic-sim", Property: "C18", Run: runAtomicSim})
}
