package lssim

import (
	"bytes"
	"context"
	"fmt"
	"sort"
	"strings"
	"time"

	"github.com/PowerDNS/lightningstream/lmdbenv"
	"github.com/PowerDNS/lightningstream/lmdbenv/header"
	"github.com/PowerDNS/lightningstream/snapshot"
	"github.com/PowerDNS/lightningstream/syncer"
	"github.com/PowerDNS/lmdb-go/lmdb"
	"github.com/c2h5oh/datasize"
)

// dupsort-sim (C20): a shadow-mode instance with dupsort_hack enabled and a
// MDB_DUPSORT application DBI. Local and remote change sequences; after
// every mirror cycle the set of (key, value) pairs must be what the model
// says, every shadow key must decode (with the harness's own decoder, written
// from the documented layout) to its pair, and data that cannot be mapped
// uniquely and order-preservingly must be refused without altering anything.

type pair struct{ K, V string }

// refEncode is the documented layout: key, four zero bytes, as much of the
// value as fits in 511 bytes, one byte with the key length.
func refEncode(p pair) (string, bool) {
	if len(p.K) == 0 || len(p.K) > 255 {
		return "", false
	}
	room := 511 - len(p.K) - 4 - 1
	v := p.V
	if len(v) > room {
		v = v[:room]
	}
	return p.K + "\x00\x00\x00\x00" + v + string([]byte{byte(len(p.K))}), true
}

func refDecodeKey(sk string) (string, bool) {
	if len(sk) < 6 {
		return "", false
	}
	kl := int(sk[len(sk)-1])
	if len(sk) < kl+5 || sk[kl:kl+4] != "\x00\x00\x00\x00" {
		return "", false
	}
	return sk[:kl], true
}

func runDupsortSim(env *RunEnv) {
	sim, t := env.Sim, env.Tape
	e, err := lmdbenv.NewWithOptions(env.Root+"/dup", lmdbenv.Options{Create: true, MapSize: 64 * datasize.MB, EnvFlags: lmdb.NoSync | lmdb.NoMetaSync})
	if err != nil {
		env.Res.HarnessErr = err.Error()
		return
	}
	defer e.Close()
	var viol []Violation
	hasEmpty := false
	violate := func(o, sig, msg string) {
		if hasEmpty {
			// known finding: values of zero length are mishandled in shadow mode
			sig = "empty-application-value"
		}
		if len(viol) == 0 {
			viol = append(viol, Violation{"C20", o, sig, msg})
			sim.Logf("VIOLATION C20/%s [%s]: %s", o, sig, msg)
		}
	}
	c, lc := DefaultConf("me", false)
	lc.DupSortHack = true
	c.LMDBs[DBName] = lc
	s, err := syncer.New(DBName, e, NewSimBucket(sim), c, lc, syncer.Options{})
	if err != nil {
		env.Res.HarnessErr = err.Error()
		return
	}
	sim.Quiesce()
	deregisterHealth()
	long := strings.Repeat("L", 511) // dup values are limited to 511 bytes too
	keys := []string{"k", "key", "a", "a\x00", "a\x00\x00\x00\x00", strings.Repeat("K", 255), strings.Repeat("K", 250), "b\xff"}
	vals := []string{"v", "val", "", "\x00", "\x00\x00\x00\x00", "\x00\x00\x00\x00x", "\x01", long, long[:510] + "x", long[:510] + "y", long[:505] + "x", long[:505] + "y", long[:260], long[:251] + "a", long[:251] + "b", "w\x00", "\xff"}
	allowEmpty := t.Choose("ds-empty", 4) == 3
	allowCollide := t.Choose("ds-collide", 3) == 2
	model := map[pair]bool{}
	readPairs := func() map[pair]bool {
		out := map[pair]bool{}
		_ = e.View(func(txn *lmdb.Txn) error {
			dbi, err := txn.OpenDBI("dup", 0)
			if err != nil {
				return nil
			}
			cur, _ := txn.OpenCursor(dbi)
			defer cur.Close()
			for {
				k, v, err := cur.Get(nil, nil, lmdb.Next)
				if err != nil {
					break
				}
				out[pair{string(k), string(v)}] = true
			}
			return nil
		})
		return out
	}
	sortedPairs := func(m map[pair]bool) []pair {
		var ps []pair
		for p := range m {
			ps = append(ps, p)
		}
		sort.Slice(ps, func(i, j int) bool {
			if ps[i].K != ps[j].K {
				return ps[i].K < ps[j].K
			}
			return ps[i].V < ps[j].V
		})
		return ps
	}
	desc := func(m map[pair]bool) string {
		var sb strings.Builder
		for _, p := range sortedPairs(m) {
			fmt.Fprintf(&sb, "(%dB:%x.. = %dB:%x..) ", len(p.K), p.K[:min(4, len(p.K))], len(p.V), p.V[:min(6, len(p.V))])
		}
		return sb.String()
	}
	if err := e.Update(func(txn *lmdb.Txn) error { _, err := txn.OpenDBI("dup", lmdb.Create|lmdb.DupSort); return err }); err != nil {
		env.Res.HarnessErr = err.Error()
		return
	}
	sim.Logf("cfg dupsort-sim empty=%v collide=%v", allowEmpty, allowCollide)
	rounds := 2 + t.Choose("ds-rounds", 5)
	cycles, refused := 0, 0
	for r := 0; r < rounds && len(viol) == 0; r++ {
		// local changes
		nch := 1 + t.Choose("ds-nch", 4)
		err := e.Update(func(txn *lmdb.Txn) error {
			dbi, err := txn.OpenDBI("dup", 0)
			if err != nil {
				return err
			}
			for i := 0; i < nch; i++ {
				p := pair{keys[t.Choose("ds-key", len(keys))], vals[t.Choose("ds-val", len(vals))]}
				if p.V == "" && !allowEmpty {
					p.V = "e"
				}
				if !allowCollide && len(p.V) > 500 {
					p.V = p.V[:300] // no two values that only differ beyond what fits in the shadow key
				}
				if t.Chance("ds-del", 250) && len(model) > 0 {
					ps := sortedPairs(model)
					d := ps[t.Choose("ds-delwhich", len(ps))]
					if d.V == "" {
						continue // LMDB cannot address an empty duplicate for deletion
					}
					if err := txn.Del(dbi, []byte(d.K), []byte(d.V)); err != nil && !lmdb.IsNotFound(err) {
						return err
					}
					delete(model, d)
					continue
				}
				if err := txn.Put(dbi, []byte(p.K), []byte(p.V), 0); err != nil {
					if strings.Contains(err.Error(), "MDB_BAD_VALSIZE") {
						continue // LMDB itself does not take this pair
					}
					return err
				}
				model[p] = true
			}
			return nil
		})
		if err != nil {
			env.Res.HarnessErr = "app: " + err.Error()
			return
		}
		hasEmpty = false
		for p := range model {
			if p.V == "" {
				hasEmpty = true
			}
		}
		before, _ := DumpEnv(e)
		// is the data mappable? (independent computation from the layout)
		mappable := true
		why := ""
		seen := map[string]pair{}
		prev := ""
		for _, p := range sortedPairs(model) {
			sk, ok := refEncode(p)
			if !ok {
				mappable, why = false, "key length"
				break
			}
			if q, dup := seen[sk]; dup {
				mappable, why = false, fmt.Sprintf("pairs %dB/%dB and %dB/%dB share a shadow key", len(p.K), len(p.V), len(q.K), len(q.V))
				break
			}
			seen[sk] = p
			if prev != "" && sk < prev {
				mappable, why = false, "order not preserved"
				break
			}
			prev = sk
		}
		// one full mirror cycle in one transaction, as LoadOnce does
		var snapDBI *snapshot.DBI
		ts := header.TimestampFromTime(time.Now())
		cerr := e.Update(func(txn *lmdb.Txn) error {
			if err := s.VerifMainToShadow(context.Background(), txn, ts); err != nil {
				return err
			}
			d, err := s.VerifReadDBI(txn, shadowPrefix+"dup", "dup", false)
			if err != nil {
				return err
			}
			snapDBI = d
			return s.VerifShadowToMain(context.Background(), txn)
		})
		sim.Sleep(time.Millisecond)
		after, _ := DumpEnv(e)
		got := readPairs()
		sim.Logf("  round %d pairs=%d mappable=%v (%s) err=%v", r, len(model), mappable, why, cerr)
		if cerr != nil {
			refused++
			if after.Fingerprint() != before.Fingerprint() {
				violate("refuse-without-change", "refused-but-altered", fmt.Sprintf("the mirror cycle was refused (%v) but the LMDB changed: %s", cerr, firstDiff(before, after)))
			}
			if mappable {
				violate("valid-accepted", "mappable-data-refused", fmt.Sprintf("data that maps uniquely and in order was refused: %v; pairs: %s", cerr, desc(model)))
			}
			// the application keeps its data; drop the offending changes from
			// the model by resetting to what is stored
			model = got
			// remove everything so that the next round starts mappable again
			_ = e.Update(func(txn *lmdb.Txn) error {
				dbi, _ := txn.OpenDBI("dup", 0)
				return txn.Drop(dbi, false)
			})
			model = map[pair]bool{}
			continue
		}
		cycles++
		if !mappable {
			violate("refuse-unmappable", "unmappable-data-accepted", fmt.Sprintf("data that cannot be mapped (%s) was not refused; pairs before: %s; after the cycle: %s", why, desc(model), desc(got)))
			break
		}
		if len(got) != len(model) {
			violate("pairs-preserved", "pair-set-changed", fmt.Sprintf("a mirror cycle changed the application's pairs from %s to %s", desc(model), desc(got)))
			break
		}
		for p := range model {
			if !got[p] {
				violate("pairs-preserved", "pair-set-changed", fmt.Sprintf("pair (%q..,%dB) lost in a mirror cycle", p.K[:min(8, len(p.K))], len(p.V)))
			}
		}
		// shadow keys: legal length, decodable to the original pair, distinct
		if sd := after.DBIs[shadowPrefix+"dup"]; sd != nil && len(viol) == 0 {
			live := map[pair]bool{}
			for _, kv := range sd.Pairs {
				if len(kv.K) > 511 {
					violate("shadow-keys", "shadow-key-too-long", fmt.Sprintf("shadow key of %d bytes", len(kv.K)))
				}
				h, val, err := ParseHdr(kv.V)
				if err != nil {
					violate("shadow-keys", "shadow-value-unparsable", err.Error())
					break
				}
				k, ok := refDecodeKey(string(kv.K))
				if !ok {
					violate("shadow-keys", "shadow-key-undecodable", fmt.Sprintf("shadow key %x does not follow the documented layout", kv.K))
					break
				}
				if h.Flags&1 == 0 {
					live[pair{k, string(val)}] = true
				}
			}
			if len(viol) == 0 && len(live) != len(model) {
				violate("shadow-keys", "shadow-pairs-differ", fmt.Sprintf("the live shadow entries decode to %s, the application has %s", desc(live), desc(model)))
			}
		}
		if snapDBI != nil && len(viol) == 0 {
			if snapDBI.Transform() != snapshot.TransformDupSortHackV1 {
				violate("transform-stated", "transform-missing", fmt.Sprintf("the dumped DBI states transform %q", snapDBI.Transform()))
			}
			if snapDBI.Flags()&uint64(lmdb.DupSort) == 0 {
				violate("transform-stated", "dupsort-flag-missing", "the dumped DBI does not carry the MDB_DUPSORT flag of the original DBI")
			}
		}
		_ = bytes.Compare
	}
	env.Res.Violations = viol
	env.Res.Counts = map[string]int{"cycles": cycles, "refused": refused}
	env.Res.Nontrivial = cycles >= 1
}

func init() {
	RegisterProfile(&Profile{Name: "dupsort-sim", Property: "C20", Run: runDupsortSim})
}
