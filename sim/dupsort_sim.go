package lssim

import (
	"bytes"
	"context"
	"fmt"
	"sort"
	"strings"
	"time"

	"github.com/PowerDNS/lightningstream/lmdbenv"
	"github.com/PowerDNS/lightningstream/lmdbenv/header"
	"github.com/PowerDNS/lightningstream/snapshot"
	"github.com/PowerDNS/lightningstream/syncer"
	"github.com/PowerDNS/lmdb-go/lmdb"
	"github.com/c2h5oh/datasize"
)

// dupsort-sim (C20): a shadow-mode instance with dupsort_hack enabled and a
// MDB_DUPSORT application DBI. Local and remote change sequences; after
// every mirror cycle the set of (key, value) pairs must be what the model
// says, every shadow key must decode (with the harness's own decoder, written
// from the documented layout) to its pair, and data that cannot be mapped
// uniquely and order-preservingly must be refused without altering anything.

type pair struct{ K, V string }

// refEncode is the documented layout: key, four zero bytes, as much of the
// value as fits in 511 bytes, one byte with the key length.
func refEncode(p pair) (string, bool) {
	if len(p.K) == 0 || len(p.K) > 255 {
		return "", false
	}
	room := 511 - len(p.K) - 4 - 1
	v := p.V
	if len(v) > room {
		v = v[:room]
	}
	return p.K + "\x00\x00\x00\x00" + v + string([]byte{byte(len(p.K))}), true
}

func refDecodeKey(sk string) (string, bool) {
	if len(sk) < 6 {
		return "", false
	}
	kl := int(sk[len(sk)-1])
	if len(sk) < kl+5 || sk[kl:kl+4] != "\x00\x00\x00\x00" {
		return "", false
	}
	return sk[:kl], true
}

func runDupsortSim(env *RunEnv) {
	sim, t := env.Sim, env.Tape
	e, err := lmdbenv.NewWithOptions(env.Root+"/dup", lmdbenv.Options{Create: true, MapSize: 64 * datasize.MB, EnvFlags: lmdb.NoSync | lmdb.NoMetaSync})
	if err != nil {
		env.Res.HarnessErr = err.Error()
		return
	}
	defer e.Close()
	var viol []Violation
	hasEmpty := false
	violate := func(o, sig, msg string) {
		if hasEmpty {
			// known finding: values of zero length are mishandled in shadow mode
			sig = "empty-application-value"
		}
		if len(viol) == 0 {
			viol = append(viol, Violation{"C20", o, sig, msg})
			sim.Logf("VIOLATION C20/%s [%s]: %s", o, sig, msg)
		}
	}
	c, lc := DefaultConf("me", false)
	lc.DupSortHack = true
	c.LMDBs[DBName] = lc
	s, err := syncer.New(DBName, e, NewSimBucket(sim), c, lc, syncer.Options{})
	if err != nil {
		env.Res.HarnessErr = err.Error()
		return
	}
	sim.Quiesce()
	deregisterHealth()
	// A peer with the same schema whose uploads are merged here (remote
	// change sequences).
	e2, err := lmdbenv.NewWithOptions(env.Root+"/dup-peer", lmdbenv.Options{Create: true, MapSize: 64 * datasize.MB, EnvFlags: lmdb.NoSync | lmdb.NoMetaSync})
	if err != nil {
		env.Res.HarnessErr = err.Error()
		return
	}
	defer e2.Close()
	c2, lc2 := DefaultConf("peer", false)
	lc2.DupSortHack = true
	c2.LMDBs[DBName] = lc2
	peerBucket := NewSimBucket(sim)
	s2, err := syncer.New(DBName, e2, peerBucket, c2, lc2, syncer.Options{})
	if err != nil {
		env.Res.HarnessErr = err.Error()
		return
	}
	sim.Quiesce()
	deregisterHealth()
	long := strings.Repeat("L", 511) // dup values are limited to 511 bytes too
	keys := []string{"k", "key", "a", "a\x00", "a\x00\x00\x00\x00", strings.Repeat("K", 255), strings.Repeat("K", 250), "b\xff"}
	vals := []string{"v", "val", "", "\x00", "\x00\x00\x00\x00", "\x00\x00\x00\x00x", "\x01", long, long[:510] + "x", long[:510] + "y", long[:505] + "x", long[:505] + "y", long[:260], long[:251] + "a", long[:251] + "b", "w\x00", "\xff"}
	allowEmpty := t.Choose("ds-empty", 4) == 3
	allowCollide := t.Choose("ds-collide", 3) == 2
	model := map[pair]bool{}
	readPairs := func() map[pair]bool {
		out := map[pair]bool{}
		_ = e.View(func(txn *lmdb.Txn) error {
			dbi, err := txn.OpenDBI("dup", 0)
			if err != nil {
				return nil
			}
			cur, _ := txn.OpenCursor(dbi)
			defer cur.Close()
			for {
				k, v, err := cur.Get(nil, nil, lmdb.Next)
				if err != nil {
					break
				}
				out[pair{string(k), string(v)}] = true
			}
			return nil
		})
		return out
	}
	sortedPairs := func(m map[pair]bool) []pair {
		var ps []pair
		for p := range m {
			ps = append(ps, p)
		}
		sort.Slice(ps, func(i, j int) bool {
			if ps[i].K != ps[j].K {
				return ps[i].K < ps[j].K
			}
			return ps[i].V < ps[j].V
		})
		return ps
	}
	desc := func(m map[pair]bool) string {
		var sb strings.Builder
		for _, p := range sortedPairs(m) {
			fmt.Fprintf(&sb, "(%dB:%x.. = %dB:%x..) ", len(p.K), p.K[:min(4, len(p.K))], len(p.V), p.V[:min(6, len(p.V))])
		}
		return sb.String()
	}
	if err := e.Update(func(txn *lmdb.Txn) error { _, err := txn.OpenDBI("dup", lmdb.Create|lmdb.DupSort); return err }); err != nil {
		env.Res.HarnessErr = err.Error()
		return
	}
	if err := e2.Update(func(txn *lmdb.Txn) error { _, err := txn.OpenDBI("dup", lmdb.Create|lmdb.DupSort); return err }); err != nil {
		env.Res.HarnessErr = err.Error()
		return
	}
	peerModel := map[pair]bool{}
	remoteMerges := 0
	// shadowVersions decodes a dump of the shadow DBI: shadow key -> version
	shadowVersions := func(st *NodeState) map[string]Version {
		out := map[string]Version{}
		if sd := st.DBIs[shadowPrefix+"dup"]; sd != nil {
			for _, kv := range sd.Pairs {
				if h, val, err := ParseHdr(kv.V); err == nil {
					out[string(kv.K)] = Version{TS: h.TS, Deleted: h.Flags&1 != 0, Val: string(val)}
				}
			}
		}
		return out
	}
	// mappableSet: do these pairs map uniquely and order-preservingly?
	// (independent computation from the documented layout)
	mappableSet := func(m map[pair]bool) (bool, string) {
		seen := map[string]pair{}
		prev := ""
		for _, p := range sortedPairs(m) {
			sk, ok := refEncode(p)
			if !ok {
				return false, "key length"
			}
			if q, dup := seen[sk]; dup {
				return false, fmt.Sprintf("pairs %dB/%dB and %dB/%dB share a shadow key", len(p.K), len(p.V), len(q.K), len(q.V))
			}
			seen[sk] = p
			if prev != "" && sk < prev {
				return false, "order not preserved"
			}
			prev = sk
		}
		return true, ""
	}
	// peerUpload applies a few changes on the peer and lets it upload; it
	// returns the blob, or nil when the peer itself refused its data.
	peerUpload := func() []byte {
		nch := 1 + t.Choose("ds-peer-nch", 3)
		err := e2.Update(func(txn *lmdb.Txn) error {
			dbi, err := txn.OpenDBI("dup", 0)
			if err != nil {
				return err
			}
			for i := 0; i < nch; i++ {
				if t.Chance("ds-peer-del", 350) && len(peerModel) > 0 {
					ps := sortedPairs(peerModel)
					d := ps[t.Choose("ds-peer-delwhich", len(ps))]
					if err := txn.Del(dbi, []byte(d.K), []byte(d.V)); err != nil && !lmdb.IsNotFound(err) {
						return err
					}
					delete(peerModel, d)
					continue
				}
				var p pair
				if t.Chance("ds-peer-same", 500) && len(model) > 0 {
					// a pair this instance holds too, or another value of one of its keys
					ps := sortedPairs(model)
					p = ps[t.Choose("ds-peer-samewhich", len(ps))]
					if t.Chance("ds-peer-otherval", 500) {
						p.V = vals[t.Choose("ds-peer-val", len(vals))]
					}
				} else {
					p = pair{keys[t.Choose("ds-peer-key", len(keys))], vals[t.Choose("ds-peer-val", len(vals))]}
				}
				if p.V == "" {
					p.V = "e"
				}
				if len(p.V) > 200 {
					p.V = p.V[:200] // the whole value fits into every shadow key
				}
				if err := txn.Put(dbi, []byte(p.K), []byte(p.V), 0); err != nil {
					return err
				}
				peerModel[p] = true
			}
			return nil
		})
		if err != nil {
			panic("harness: peer application: " + err.Error())
		}
		known := map[string]bool{}
		for _, n := range peerBucket.Names() {
			known[n] = true
		}
		sim.Sleep(time.Millisecond)
		if _, err := s2.SendOnce(context.Background(), e2); err != nil {
			// the peer's own data is not mappable: start it afresh
			_ = e2.Update(func(txn *lmdb.Txn) error {
				dbi, _ := txn.OpenDBI("dup", 0)
				return txn.Drop(dbi, false)
			})
			peerModel = map[pair]bool{}
			return nil
		}
		for _, n := range peerBucket.Names() {
			if !known[n] {
				b, _ := peerBucket.Get(n)
				return b
			}
		}
		return nil
	}
	sim.Logf("cfg dupsort-sim empty=%v collide=%v", allowEmpty, allowCollide)
	rounds := 2 + t.Choose("ds-rounds", 5)
	cycles, refused := 0, 0
	for r := 0; r < rounds && len(viol) == 0; r++ {
		// local changes
		nch := 1 + t.Choose("ds-nch", 4)
		err := e.Update(func(txn *lmdb.Txn) error {
			dbi, err := txn.OpenDBI("dup", 0)
			if err != nil {
				return err
			}
			for i := 0; i < nch; i++ {
				p := pair{keys[t.Choose("ds-key", len(keys))], vals[t.Choose("ds-val", len(vals))]}
				if p.V == "" && !allowEmpty {
					p.V = "e"
				}
				if !allowCollide && len(p.V) > 500 {
					p.V = p.V[:300] // no two values that only differ beyond what fits in the shadow key
				}
				if t.Chance("ds-del", 250) && len(model) > 0 {
					ps := sortedPairs(model)
					d := ps[t.Choose("ds-delwhich", len(ps))]
					if d.V == "" {
						continue // LMDB cannot address an empty duplicate for deletion
					}
					if err := txn.Del(dbi, []byte(d.K), []byte(d.V)); err != nil && !lmdb.IsNotFound(err) {
						return err
					}
					delete(model, d)
					continue
				}
				if err := txn.Put(dbi, []byte(p.K), []byte(p.V), 0); err != nil {
					if strings.Contains(err.Error(), "MDB_BAD_VALSIZE") {
						continue // LMDB itself does not take this pair
					}
					return err
				}
				model[p] = true
			}
			return nil
		})
		if err != nil {
			env.Res.HarnessErr = "app: " + err.Error()
			return
		}
		hasEmpty = false
		for p := range model {
			if p.V == "" {
				hasEmpty = true
			}
		}
		before, _ := DumpEnv(e)
		// is the data mappable? (independent computation from the layout)
		mappable, why := mappableSet(model)
		if mappable && !hasEmpty && t.Chance("ds-remote", 400) {
			// A remote change sequence: the peer's upload is merged with the
			// real LoadOnce (capture, merge, mirror back in one transaction).
			if blob := peerUpload(); blob != nil {
				loaded, err := snapshot.LoadData(blob)
				ref, rerr := RefDecode(blob)
				if err != nil || rerr != nil {
					violate("remote-merge", "peer-upload-undecodable", fmt.Sprintf("the peer's upload does not decode: %v / %v", err, rerr))
					break
				}
				// expected result per shadow key (last writer wins; this
				// instance's changes of this round are captured now and are
				// therefore the newest)
				exp := shadowVersions(before)
				liveBefore := map[string]bool{}
				for sk, v := range exp {
					if !v.Deleted {
						liveBefore[sk] = true
					}
				}
				now := map[string]bool{}
				fits := true
				for p := range model {
					sk, _ := refEncode(p)
					now[sk] = true
					if len(p.V) > 511-len(p.K)-5 {
						fits = false
					}
				}
				const newest = ^uint64(0)
				for sk := range now {
					if !liveBefore[sk] {
						exp[sk] = Version{TS: newest}
					}
				}
				for sk := range liveBefore {
					if !now[sk] {
						exp[sk] = Version{TS: newest, Deleted: true}
					}
				}
				tie := false
				for _, d := range ref.Databases {
					if d.Name != "dup" {
						continue
					}
					for _, kv := range d.Entries {
						pv := Version{TS: kv.TimestampNano, Deleted: kv.Flags&1 != 0}
						mv, has := exp[string(kv.Key)]
						if has && mv.TS == pv.TS {
							tie = true
						}
						if !has || pv.TS > mv.TS {
							exp[string(kv.Key)] = pv
						}
					}
				}
				sim.Sleep(time.Millisecond)
				upd := snapshot.Update{Snapshot: loaded, NameInfo: snapshot.NameInfo{Kind: snapshot.KindSnapshot, InstanceID: "peer", FullName: fmt.Sprintf("peer%d", r)}}
				_, _, lerr := s.LoadOnce(context.Background(), e, "peer", upd, 0)
				sim.Sleep(time.Millisecond)
				after, _ := DumpEnv(e)
				got := readPairs()
				sim.Logf("  round %d remote merge of %d peer pairs: err=%v pairs %d -> %d", r, len(peerModel), lerr, len(model), len(got))
				if lerr != nil {
					refused++
					if after.Fingerprint() != before.Fingerprint() {
						violate("refuse-without-change", "refused-but-altered", fmt.Sprintf("the merge was refused (%v) but the LMDB changed: %s", lerr, firstDiff(before, after)))
					}
					// The union may not be mappable although both sides were;
					// start afresh on both sides.
					for _, x := range []*lmdb.Env{e, e2} {
						_ = x.Update(func(txn *lmdb.Txn) error {
							dbi, _ := txn.OpenDBI("dup", 0)
							return txn.Drop(dbi, false)
						})
					}
					model, peerModel = map[pair]bool{}, map[pair]bool{}
					continue
				}
				remoteMerges++
				cycles++
				// (1) the application's DBI holds exactly the live shadow entries
				av := shadowVersions(after)
				liveAfter := map[pair]bool{}
				for sk, v := range av {
					if v.Deleted {
						continue
					}
					k, ok := refDecodeKey(sk)
					if !ok {
						violate("shadow-keys", "shadow-key-undecodable", fmt.Sprintf("shadow key %x does not follow the documented layout", sk))
						break
					}
					liveAfter[pair{k, v.Val}] = true
				}
				if len(viol) > 0 {
					break
				}
				same := len(liveAfter) == len(got)
				for p := range got {
					if !liveAfter[p] {
						same = false
					}
				}
				if !same {
					violate("pairs-preserved", "application-differs-from-merged-state", fmt.Sprintf("after merging a remote snapshot the application's DBI holds %s but the live merged entries are %s", desc(got), desc(liveAfter)))
					break
				}
				// (2) the merged state is the last-writer-wins result
				if fits && !tie {
					for sk, ev := range exp {
						gv, ok := av[sk]
						if !ok || gv.Deleted != ev.Deleted {
							violate("remote-merge", "wrong-merge-result", fmt.Sprintf("shadow key %x: expected deleted=%v after the merge, stored: present=%v deleted=%v", sk, ev.Deleted, ok, gv.Deleted))
							break
						}
					}
					for sk := range av {
						if _, ok := exp[sk]; !ok && len(viol) == 0 {
							violate("remote-merge", "wrong-merge-result", fmt.Sprintf("shadow key %x appeared from nowhere", sk))
						}
					}
				}
				if len(viol) > 0 {
					break
				}
				// The union of two mappable sides need not be mappable; that
				// is judged when this instance next mirrors it (next round).
				model = got
				continue
			}
		}
		// one full mirror cycle in one transaction, as LoadOnce does
		var snapDBI *snapshot.DBI
		ts := header.TimestampFromTime(time.Now())
		cerr := e.Update(func(txn *lmdb.Txn) error {
			if err := s.VerifMainToShadow(context.Background(), txn, ts); err != nil {
				return err
			}
			d, err := s.VerifReadDBI(txn, shadowPrefix+"dup", "dup", false)
			if err != nil {
				return err
			}
			snapDBI = d
			return s.VerifShadowToMain(context.Background(), txn)
		})
		sim.Sleep(time.Millisecond)
		after, _ := DumpEnv(e)
		got := readPairs()
		sim.Logf("  round %d pairs=%d mappable=%v (%s) err=%v", r, len(model), mappable, why, cerr)
		if cerr != nil {
			refused++
			if after.Fingerprint() != before.Fingerprint() {
				violate("refuse-without-change", "refused-but-altered", fmt.Sprintf("the mirror cycle was refused (%v) but the LMDB changed: %s", cerr, firstDiff(before, after)))
			}
			if mappable {
				violate("valid-accepted", "mappable-data-refused", fmt.Sprintf("data that maps uniquely and in order was refused: %v; pairs: %s", cerr, desc(model)))
			}
			// the application keeps its data; drop the offending changes from
			// the model by resetting to what is stored
			model = got
			// remove everything so that the next round starts mappable again
			_ = e.Update(func(txn *lmdb.Txn) error {
				dbi, _ := txn.OpenDBI("dup", 0)
				return txn.Drop(dbi, false)
			})
			model = map[pair]bool{}
			continue
		}
		cycles++
		if !mappable {
			violate("refuse-unmappable", "unmappable-data-accepted", fmt.Sprintf("data that cannot be mapped (%s) was not refused; pairs before: %s; after the cycle: %s", why, desc(model), desc(got)))
			break
		}
		if len(got) != len(model) {
			violate("pairs-preserved", "pair-set-changed", fmt.Sprintf("a mirror cycle changed the application's pairs from %s to %s", desc(model), desc(got)))
			break
		}
		for p := range model {
			if !got[p] {
				violate("pairs-preserved", "pair-set-changed", fmt.Sprintf("pair (%q..,%dB) lost in a mirror cycle", p.K[:min(8, len(p.K))], len(p.V)))
			}
		}
		// shadow keys: legal length, decodable to the original pair, distinct
		if sd := after.DBIs[shadowPrefix+"dup"]; sd != nil && len(viol) == 0 {
			live := map[pair]bool{}
			for _, kv := range sd.Pairs {
				if len(kv.K) > 511 {
					violate("shadow-keys", "shadow-key-too-long", fmt.Sprintf("shadow key of %d bytes", len(kv.K)))
				}
				h, val, err := ParseHdr(kv.V)
				if err != nil {
					violate("shadow-keys", "shadow-value-unparsable", err.Error())
					break
				}
				k, ok := refDecodeKey(string(kv.K))
				if !ok {
					violate("shadow-keys", "shadow-key-undecodable", fmt.Sprintf("shadow key %x does not follow the documented layout", kv.K))
					break
				}
				if h.Flags&1 == 0 {
					live[pair{k, string(val)}] = true
				}
			}
			if len(viol) == 0 && len(live) != len(model) {
				violate("shadow-keys", "shadow-pairs-differ", fmt.Sprintf("the live shadow entries decode to %s, the application has %s", desc(live), desc(model)))
			}
		}
		if snapDBI != nil && len(viol) == 0 {
			if snapDBI.Transform() != snapshot.TransformDupSortHackV1 {
				violate("transform-stated", "transform-missing", fmt.Sprintf("the dumped DBI states transform %q", snapDBI.Transform()))
			}
			if snapDBI.Flags()&uint64(lmdb.DupSort) == 0 {
				violate("transform-stated", "dupsort-flag-missing", "the dumped DBI does not carry the MDB_DUPSORT flag of the original DBI")
			}
		}
		_ = bytes.Compare
	}
	env.Res.Violations = viol
	env.Res.Counts = map[string]int{"cycles": cycles, "refused": refused, "remote_merges": remoteMerges}
	env.Res.Nontrivial = cycles >= 1
}

func init() {
	RegisterProfile(&Profile{Name: "dupsort-sim", Property: "C20", Run: runDupsortSim})
}
