package lssim

import (
	"fmt"
	"strings"
)

// C01: replicas converge to the per-key last-writer-wins winner.
type MonC01 struct {
	BaseMonitor
	Undecided string
	Decided   bool
}

func (m *MonC01) AtEnd(f *Fleet) {
	if why := f.Premise(); why != "" {
		m.Undecided = why
		f.Sim.Logf("C01 undecided: %s", why)
		f.Sim.Probe("c01-premise-not-reached")
		return
	}
	m.Decided = true
	CheckConverged(f, "C01")
}

// CheckConverged checks (a) identical logical content on all instances and
// (b) that the content is the last-writer-wins winner of all versions.
func CheckConverged(f *Fleet, prop string) {
	ref := f.Nodes[0]
	refContent, errs := f.state[ref].LogicalContent(ref.Native)
	if len(errs) > 0 {
		f.Violate(Violation{prop, "parse", "unparsable-value", errs[0]})
		return
	}
	for _, n := range f.Nodes[1:] {
		c, errs := f.state[n].LogicalContent(n.Native)
		if len(errs) > 0 {
			f.Violate(Violation{prop, "parse", "unparsable-value", errs[0]})
			return
		}
		if d := DiffLogical(refContent, c); len(d) > 0 {
			f.Violate(Violation{prop, "identical-content", divergenceSignature(f, refContent, c),
				fmt.Sprintf("instances %s and %s diverge after full exchange: %s", ref.Name, n.Name, d[0])})
			return
		}
	}
	if !ref.Native {
		// identical application DBIs
		a := f.state[ref].AppDBIs()
		for _, n := range f.Nodes[1:] {
			b := f.state[n].AppDBIs()
			for _, name := range sortedKeys(a) {
				if _, ok := b[name]; !ok && len(a[name].Pairs) == 0 {
					continue
				}
				if !samePairs(a[name], b[name]) {
					f.Violate(Violation{prop, "identical-app-dbis", "app-dbi-differs",
						fmt.Sprintf("application DBI %s differs between %s and %s", name, ref.Name, n.Name)})
					return
				}
			}
			for _, name := range sortedKeys(b) {
				if _, ok := a[name]; !ok && len(b[name].Pairs) > 0 {
					f.Violate(Violation{prop, "identical-app-dbis", "app-dbi-differs",
						fmt.Sprintf("application DBI %s only on %s", name, n.Name)})
					return
				}
			}
		}
	}
	// (b) winner = a max-timestamp version of all versions ever stored
	set := f.Versions
	if ref.Native {
		set = f.AppVersions
	}
	for _, dbi := range sortedKeys(set) {
		for _, key := range sortedKeys(set[dbi]) {
			var max uint64
			for v := range set[dbi][key] {
				if v.TS > max {
					max = v.TS
				}
			}
			if f.ShadowTaint[dbi+"/"+key] {
				continue // documented: change was uncaptured when the syncer stopped
			}
			if f.Tainted[dbi+"/"+key] {
				// the application itself overwrote a newer version locally
				// with an older timestamp; the newer one may never have
				// been published: nothing Lightning Stream could preserve
				continue
			}
			got, ok := refContent[dbi][key]
			if !ok {
				f.Violate(Violation{prop, "lww-winner", "key-lost",
					fmt.Sprintf("dbi %s key %q: versions were written (max ts %d) but the converged content has no entry", dbi, key, max)})
				return
			}
			if got.TS != max {
				sig := "not-max-timestamp"
				if f.Tainted[dbi+"/"+key] {
					sig = "nonmonotone-local-write"
				}
				f.Violate(Violation{prop, "lww-winner", sig,
					fmt.Sprintf("dbi %s key %q: converged to %s but a version with ts %d was written", dbi, key, got, max)})
				return
			}
			if !set[dbi][key][got] {
				f.Violate(Violation{prop, "lww-winner", "invented-version",
					fmt.Sprintf("dbi %s key %q: converged to %s which nobody ever wrote", dbi, key, got)})
				return
			}
		}
	}
	// Shadow mode: versions are created by Lightning Stream when it captures
	// application changes, so "every version ever stored" also contains what
	// a faulty capture invents. Independent of that: a key some application
	// put and no application ever deleted is live at the end (every winner
	// of its versions is a put), with a value some application wrote.
	if !ref.Native {
		puts := map[string]map[string]bool{} // dbi/key -> values written
		dels := map[string]bool{}
		for _, tx := range f.AppHistory {
			for _, op := range tx.Ops {
				id := op.DBI + "/" + string(op.Key)
				if op.Kind == OpDel {
					dels[id] = true
					continue
				}
				if puts[id] == nil {
					puts[id] = map[string]bool{}
				}
				puts[id][string(op.Val)] = true
			}
		}
		app := f.state[ref].AppDBIs()
		for _, id := range sortedKeys(puts) {
			if dels[id] || f.ShadowTaint[id] || f.Tainted[id] {
				continue
			}
			raced := false
			for _, n := range f.Nodes {
				if f.RaceKeys[n.Name+"/"+id] {
					raced = true
				}
			}
			if raced {
				continue // known finding (transaction id reuse), reported by C03/C09
			}
			i := strings.Index(id, "/")
			dbi, key := id[:i], id[i+1:]
			var val []byte
			present := false
			if d := app[dbi]; d != nil {
				val, present = d.Map()[key]
			}
			if !present {
				f.Violate(Violation{prop, "lww-winner", "undeleted-key-lost",
					fmt.Sprintf("dbi %s key %q: applications put it and none ever deleted it, yet after convergence it is absent from the application's DBI (stored: %v)", dbi, key, refContent[dbi][key])})
				return
			}
			if len(val) > 0 && !puts[id][string(val)] {
				f.Violate(Violation{prop, "lww-winner", "invented-value",
					fmt.Sprintf("dbi %s key %q: converged to value %q which no application wrote", dbi, key, val)})
				return
			}
		}
	}
	// no entries out of thin air
	for _, dbi := range sortedKeys(refContent) {
		for _, key := range sortedKeys(refContent[dbi]) {
			if len(set[dbi][key]) == 0 {
				f.Violate(Violation{prop, "lww-winner", "invented-key",
					fmt.Sprintf("dbi %s key %q: present after convergence but never written", dbi, key)})
				return
			}
		}
	}
}

func samePairs(a, b *DBIState) bool {
	if a == nil || b == nil {
		return false
	}
	if len(a.Pairs) != len(b.Pairs) {
		return false
	}
	for i := range a.Pairs {
		if !eqBytes(a.Pairs[i].K, b.Pairs[i].K) || !eqBytes(a.Pairs[i].V, b.Pairs[i].V) {
			return false
		}
	}
	return true
}

// divergenceSignature classifies a divergence structurally.
func divergenceSignature(f *Fleet, a, b Logical) string {
	for _, dbi := range sortedKeys(a) {
		for _, k := range sortedKeys(a[dbi]) {
			av := a[dbi][k]
			bv, ok := b[dbi][k]
			if ok && av == bv {
				continue
			}
			if f.Tainted[dbi+"/"+k] {
				return "nonmonotone-local-write"
			}
			if !ok {
				return "key-missing-on-one-side"
			}
			if av.TS == bv.TS {
				if av.Val == bv.Val && av.Deleted != bv.Deleted {
					return "equal-ts-deleted-vs-live-same-value"
				}
				return "equal-ts-different-value"
			}
			return "different-ts"
		}
	}
	return "key-missing-on-one-side"
}
