package lssim

import (
	"fmt"
	"sort"
	"strings"
	"time"

	"github.com/PowerDNS/lightningstream/config"
	"github.com/PowerDNS/lightningstream/snapshot"
)

// Violation is a failed oracle.
type Violation struct {
	Property  string `json:"property"`
	Oracle    string `json:"oracle"`
	Signature string `json:"signature"` // structural class, used for known findings
	Msg       string `json:"msg"`
}

func (v Violation) String() string {
	return fmt.Sprintf("%s/%s [%s]: %s", v.Property, v.Oracle, v.Signature, v.Msg)
}

// Actor says who performed the last step.
type Actor struct {
	Kind string // "app", "ls", "harness", "none"
	Node *Node
	Task *Task
	Ops  []AppOp
	Txn  int64
	At   time.Time // simulated wall clock when the step started
}

// Monitor is an oracle attached to a fleet run.
type Monitor interface {
	// NodeChanged is called when the stored state of a node changed in the
	// last step (exactly one transaction committed).
	NodeChanged(f *Fleet, n *Node, before, after *NodeState, actor Actor)
	// BucketOp is called after every bucket operation.
	BucketOp(f *Fleet, op *BucketOp)
	// StepDone is called after every step, changed or not.
	StepDone(f *Fleet, actor Actor)
	// AtEnd is called after the drain phase.
	AtEnd(f *Fleet)
}

type BaseMonitor struct{}

func (BaseMonitor) NodeChanged(*Fleet, *Node, *NodeState, *NodeState, Actor) {}
func (BaseMonitor) BucketOp(*Fleet, *BucketOp)                               {}
func (BaseMonitor) StepDone(*Fleet, Actor)                                   {}
func (BaseMonitor) AtEnd(*Fleet)                                             {}

// FleetCfg is the (swarm-drawn) configuration of one fleet run.
type FleetCfg struct {
	N        int
	Native   bool
	Work     Workload
	AppTxns  int // application transaction budget
	Steps    int // scheduler steps of the workload phase
	AppRate  int // permille of steps that are application commits
	Poll     time.Duration
	StPoll   time.Duration
	Retry    time.Duration
	RetryCnt int
	ForceInt time.Duration
	MemDL    int
	MemDec   int
	Padding  bool

	Faults FaultCfg

	CrashRate    int // permille per step
	RestartEmpty int // permille of restarts with an emptied LMDB
	CancelRate   int // permille per step: graceful cancel instead of crash
	PartRate     int // permille per step: partition a node
	AppWhileDown bool
	// CrashUncaptured allows stopping a shadow-mode node that has uncaptured
	// application changes (documented to be treated differently).
	CrashUncaptured bool

	Cleanup config.Cleanup
	Sweeper config.Sweeper

	StaggerStart bool
	DrainFactor  int
	BigDelta     int // permille of steps followed by a long time advance
	ZeroDelta    int // permille of steps with no time advance at all

	// PreferPoints biases the scheduler to place application commits while
	// the node's sync loop is parked at one of these points.
	PreferPoints []string
	PreferBias   int // permille
}

// Fleet is one run: N real instances, a simulated bucket, simulated apps.
type Fleet struct {
	Sim    *Sim
	T      *Tape
	Bucket *SimBucket
	Nodes  []*Node
	Cfg    FleetCfg
	Root   string

	Mon        []Monitor
	Violations []Violation
	StopOnViol bool

	state    map[*Node]*NodeState
	appLeft  int
	Phase    string
	lastNode *Node

	// AppHistory records every application transaction
	AppHistory []AppTxnRec
	// Versions is the set of all versions ever observed in any stored state
	Versions map[string]map[string]map[Version]bool
	// AppVersions is the set of versions written by applications (native)
	AppVersions map[string]map[string]map[Version]bool
	// Tainted marks dbi/key that a native application overwrote locally with
	// a timestamp not above the stored one (the app itself discarded a newer
	// version).
	Tainted map[string]bool
	// ShadowTaint marks dbi/key that were uncaptured application changes at
	// the moment a shadow-mode syncer stopped (documented special case).
	ShadowTaint map[string]bool
	// Excluded nodes are not started, restarted or written to by the
	// standard workload (a profile drives them itself).
	Excluded map[*Node]bool
	// LastNew holds, during NodeChanged callbacks, the versions (by dbi/key)
	// that this transaction introduced and that had never been seen on any
	// instance before: versions that originate on this node.
	LastNew map[string]Version
	// emptyTxn: the last LS write transaction of the node's sync loop
	// (LoadOnce/SendOnce) committed nothing, and the loop is still parked
	// between the end of that transaction and the following env.Info().
	emptyTxn map[*Node]bool
	// RaceKeys marks node/dbi/key written by an application transaction
	// that committed in exactly that window and therefore reused the
	// transaction id of the empty LS transaction (known finding).
	RaceKeys map[string]bool
	// RaceTxn marks node/txnid of such application transactions.
	RaceTxn map[string]bool

	Stats FleetStats
}

type AppTxnRec struct {
	Node string
	Txn  int64
	Ops  []AppOp
	At   time.Duration
	Step int
}

type FleetStats struct {
	Steps, AppTxns, LSTxns, Crashes, Restarts, EmptyRestarts, Cancels int
	SimTime                                                           time.Duration
	Stores, Loads, Lists, Deletes                                     int
}

func (f *Fleet) Violate(v Violation) {
	f.Violations = append(f.Violations, v)
	f.Sim.Logf("VIOLATION %s", v)
}

func (f *Fleet) Failed() bool { return len(f.Violations) > 0 }

// InRaceWindow reports if the node's sync loop is parked between the end of
// an empty LS write transaction and the following env.Info().
func (f *Fleet) InRaceWindow(n *Node) bool { return f.emptyTxn[n] && n.Running }

func (f *Fleet) NodeByName(name string) *Node {
	for _, n := range f.Nodes {
		if n.Name == name {
			return n
		}
	}
	return nil
}

func (f *Fleet) State(n *Node) *NodeState { return f.state[n] }

// NewFleet creates the bucket and the nodes (not started).
func NewFleet(sim *Sim, root string, cfg FleetCfg) (*Fleet, error) {
	f := &Fleet{
		Sim: sim, T: sim.T, Cfg: cfg, Root: root,
		state:       map[*Node]*NodeState{},
		Versions:    map[string]map[string]map[Version]bool{},
		AppVersions: map[string]map[string]map[Version]bool{},
		Tainted:     map[string]bool{},
		ShadowTaint: map[string]bool{},
		emptyTxn:    map[*Node]bool{},
		Excluded:    map[*Node]bool{},
		RaceKeys:    map[string]bool{},
		RaceTxn:     map[string]bool{},
		appLeft:     cfg.AppTxns,
		StopOnViol:  true,
	}
	f.Bucket = NewSimBucket(sim)
	f.Bucket.Cfg = cfg.Faults
	f.Bucket.OnOp = func(op *BucketOp) {
		switch op.Op {
		case "store":
			f.Stats.Stores++
		case "load":
			f.Stats.Loads++
		case "list":
			f.Stats.Lists++
		case "delete":
			f.Stats.Deletes++
		}
		for _, m := range f.Mon {
			m.BucketOp(f, op)
		}
	}
	for i := 0; i < cfg.N; i++ {
		name := string(rune('a' + i))
		c, lc := DefaultConf(name, cfg.Native)
		c.LMDBPollInterval = cfg.Poll
		c.StoragePollInterval = cfg.StPoll
		c.StorageRetryInterval = cfg.Retry
		c.StorageRetryCount = cfg.RetryCnt
		c.StorageForceSnapshotInterval = cfg.ForceInt
		c.MemoryDownloadedSnapshots = cfg.MemDL
		c.MemoryDecompressedSnapshots = cfg.MemDec
		c.Storage.Cleanup = cfg.Cleanup
		c.Sweeper = cfg.Sweeper
		lc.HeaderExtraPaddingBlock = cfg.Padding
		c.LMDBs[DBName] = lc
		n, err := NewNode(sim, f.Bucket, root, name, cfg.Native, c, lc)
		if err != nil {
			return nil, err
		}
		f.Nodes = append(f.Nodes, n)
		st, err := DumpEnv(n.Env)
		if err != nil {
			return nil, err
		}
		f.state[n] = st
	}
	return f, nil
}

// Close tears the fleet down: every node is crashed and its LMDB closed.
func (f *Fleet) Close() {
	deregisterHealth()
	for _, n := range f.Nodes {
		n.Crash()
	}
	f.Sim.Quiesce()
	for _, n := range f.Nodes {
		n.Close()
	}
}

func (f *Fleet) addVersion(set map[string]map[string]map[Version]bool, dbi, key string, v Version) {
	m := set[dbi]
	if m == nil {
		m = map[string]map[Version]bool{}
		set[dbi] = m
	}
	k := m[key]
	if k == nil {
		k = map[Version]bool{}
		m[key] = k
	}
	k[v] = true
}

// observe re-reads nodes whose LMDB changed and feeds the monitors.
func (f *Fleet) observe(actor Actor) {
	changedNodes := map[*Node]bool{}
	for _, n := range f.Nodes {
		if n.Env == nil {
			continue
		}
		prev := f.state[n]
		last := LastTxnID(n.Env)
		if prev != nil && prev.LastTxnID == last && prev.envPtr == n.Env {
			continue
		}
		st, err := DumpEnv(n.Env)
		if err != nil {
			panic(fmt.Sprintf("harness: dump of %s failed: %v", n.Name, err))
		}
		st.envPtr = n.Env
		f.state[n] = st
		if prev != nil && prev.envPtr != nil && prev.envPtr != n.Env {
			// LMDB replaced by an empty one: not a transaction
			continue
		}
		content, _ := st.LogicalContent(n.Native)
		f.LastNew = map[string]Version{}
		for dbi, m := range content {
			for k, v := range m {
				if !f.Versions[dbi][k][v] {
					f.LastNew[dbi+"/"+k] = v // first time this version is seen anywhere
				}
				f.addVersion(f.Versions, dbi, k, v)
			}
		}
		changedNodes[n] = true
		if actor.Kind == "ls" {
			f.Stats.LSTxns++
		}
		f.Sim.Logf("  state %s txn=%d %s", n.Name, st.LastTxnID, content.String())
		for _, m := range f.Mon {
			m.NodeChanged(f, n, prev, st, actor)
		}
	}
	if actor.Kind == "ls" && actor.Task != nil && actor.Task.Role == "syncloop" {
		n := actor.Node
		p := actor.Task.point
		switch {
		case p == "lmdb:end-write":
			// the window opens when a write transaction that changed
			// nothing has ended
			f.emptyTxn[n] = !changedNodes[n]
		case p == "loadonce:after-txn" || (p == "sendonce:after-txn" && !n.Native):
			// still inside the window (env.Info() comes after this point)
		default:
			f.emptyTxn[n] = false
		}
	}
	for _, m := range f.Mon {
		m.StepDone(f, actor)
	}
}

// AppCommit performs one application transaction on node n.
func (f *Fleet) AppCommit(n *Node, ops []AppOp) Actor {
	at := time.Now()
	if n.Native {
		stored, _ := f.state[n].LogicalContent(true)
		for _, op := range ops {
			if v, ok := stored[op.DBI][string(op.Key)]; ok && op.TS <= v.TS {
				f.Tainted[op.DBI+"/"+string(op.Key)] = true
			}
		}
	}
	txn, err := n.Commit(ops)
	if err != nil {
		panic(fmt.Sprintf("harness: app commit on %s failed: %v", n.Name, err))
	}
	if f.emptyTxn[n] && n.Running {
		// The application reuses the transaction id of an empty LS write
		// transaction before LS has called env.Info().
		for _, op := range ops {
			f.RaceKeys[n.Name+"/"+op.DBI+"/"+string(op.Key)] = true
		}
		f.RaceTxn[fmt.Sprintf("%s/%d", n.Name, txn)] = true
		f.Sim.Probe("txnid-reuse-window")
	}
	f.Stats.AppTxns++
	f.AppHistory = append(f.AppHistory, AppTxnRec{Node: n.Name, Txn: txn, Ops: ops, At: f.Sim.Now(), Step: f.Sim.Step})
	if n.Native {
		// last op per key wins inside one transaction
		type dk struct{ d, k string }
		last := map[dk]Version{}
		for _, op := range ops {
			v := Version{TS: op.TS, Deleted: op.Kind == OpDel, Val: string(op.Val)}
			if v.Deleted {
				v.Val = ""
			}
			last[dk{op.DBI, string(op.Key)}] = v
		}
		for k, v := range last {
			f.addVersion(f.AppVersions, k.d, k.k, v)
		}
	}
	return Actor{Kind: "app", Node: n, Ops: ops, Txn: txn, At: at}
}

func (f *Fleet) running() []*Node {
	var out []*Node
	for _, n := range f.Nodes {
		if n.Running && !f.Excluded[n] {
			out = append(out, n)
		}
	}
	return out
}

// crashable returns the running nodes that may be stopped now. In shadow
// mode a node is only stopped when every application change has been
// captured: changes that are still uncaptured when the syncer stops are, from
// Lightning Stream's point of view, changes made while it was down, which the
// documentation treats differently (captured with a timestamp in the past,
// updated entries not saved). That documented exclusion is built into the
// workload here instead of being filtered from the results.
func (f *Fleet) crashable() []*Node {
	var out []*Node
	for _, n := range f.running() {
		if n.Native || f.Cfg.CrashUncaptured || !f.Uncaptured(n) {
			out = append(out, n)
		}
	}
	return out
}

// Uncaptured reports if a shadow-mode node has application changes that its
// shadow DBIs do not reflect yet.
func (f *Fleet) Uncaptured(n *Node) bool {
	return len(f.UncapturedKeys(n)) > 0
}

// UncapturedKeys lists dbi/key of application changes not yet in the shadow.
func (f *Fleet) UncapturedKeys(n *Node) []string {
	if n.Native || n.Env == nil {
		return nil
	}
	st, err := DumpEnv(n.Env)
	if err != nil {
		return nil
	}
	var out []string
	shadow, _ := st.LogicalContent(false)
	for name, d := range st.AppDBIs() {
		live := map[string]string{}
		for k, v := range shadow[name] {
			if !v.Deleted {
				live[k] = v.Val
			}
		}
		seen := map[string]bool{}
		for _, p := range d.Pairs {
			seen[string(p.K)] = true
			if v, ok := live[string(p.K)]; !ok || v != string(p.V) {
				out = append(out, name+"/"+string(p.K))
			}
		}
		for k := range live {
			if !seen[k] {
				out = append(out, name+"/"+k)
			}
		}
	}
	sort.Strings(out)
	return out
}

// noteStop records which keys of a shadow-mode node were uncaptured when its
// syncer stopped (crash, cancel or Sync returning an error). Such changes are
// documented to be captured with a timestamp in the past at the next start;
// convergence oracles do not apply last-writer-wins expectations to them.
func (f *Fleet) noteStop(n *Node) {
	for _, k := range f.UncapturedKeys(n) {
		if !f.ShadowTaint[k] {
			f.ShadowTaint[k] = true
			f.Sim.Probe("shadow-uncaptured-at-stop")
		}
	}
}

func (f *Fleet) stopped() []*Node {
	var out []*Node
	for _, n := range f.Nodes {
		if !n.Running && !f.Excluded[n] {
			out = append(out, n)
		}
	}
	return out
}

// delta advances simulated time between two steps.
func (f *Fleet) delta(next *Node) {
	c := f.Cfg
	if c.ZeroDelta > 0 && f.lastNode != nil && next != nil && next != f.lastNode && f.T.Chance("dzero", c.ZeroDelta) {
		f.Sim.Probe("delta-zero")
		return
	}
	if f.T.Chance("dbig", c.BigDelta) {
		d := time.Duration(1+f.T.Choose("dbigms", 3000)) * time.Millisecond
		f.Sim.Sleep(d)
		return
	}
	d := time.Duration(1+f.T.Choose("dns", 1000)) * time.Microsecond
	f.Sim.Sleep(d)
}

// syncTask returns the parked sync loop task of n, if any.
func syncTaskOf(parked []*Task, n *Node) *Task {
	for _, t := range parked {
		if t.Node == n && t.Role == "syncloop" {
			return t
		}
	}
	return nil
}

// RunWorkload is phase 1: application commits, scheduling, faults, crashes.
func (f *Fleet) RunWorkload() {
	f.Phase = "workload"
	c := f.Cfg
	started := 0
	for _, n := range f.Nodes {
		if f.Excluded[n] {
			continue
		}
		if !c.StaggerStart || started == 0 || f.T.Chance("start-now", 600) {
			if err := n.Start(); err != nil {
				panic(err)
			}
			started++
		}
	}
	actor := Actor{Kind: "none"}
	for step := 0; step < c.Steps; step++ {
		parked := f.Sim.Quiesce()
		f.observe(actor)
		if f.Failed() && f.StopOnViol {
			return
		}
		actor = Actor{Kind: "none", At: time.Now()}

		// choose the kind of step
		const (
			aRun = iota
			aApp
			aCrash
			aRestart
			aCancel
			aPart
		)
		w := make([]int, 6)
		if len(parked) > 0 {
			w[aRun] = 1000
		}
		if f.appLeft > 0 {
			w[aApp] = c.AppRate
		}
		if len(f.crashable()) > 0 {
			w[aCrash] = c.CrashRate
			w[aCancel] = c.CancelRate
		}
		if len(f.running()) > 0 {
			w[aPart] = c.PartRate
		}
		if len(f.stopped()) > 0 {
			w[aRestart] = 60
		}
		total := 0
		for _, x := range w {
			total += x
		}
		if total == 0 {
			// nothing to do but wait for a timer
			if !f.Sim.Idle(10 * time.Second) {
				f.Sim.Probe("idle-timeout")
			}
			continue
		}
		var next *Node
		switch f.T.Weighted("act", w) {
		case aRun:
			t := parked[f.T.Choose("run", len(parked))]
			next = t.Node
			f.delta(next)
			actor = Actor{Kind: "ls", Node: t.Node, Task: t, At: time.Now()}
			f.Sim.Release(t)
		case aApp:
			n := f.pickAppNode(parked)
			if n == nil {
				continue
			}
			next = n
			f.delta(next)
			f.appLeft--
			stored, _ := f.state[n].LogicalContent(n.Native)
			ops := c.Work.Gen(f.T, n, time.Now(), stored)
			if st := syncTaskOf(parked, n); st != nil {
				f.Sim.Probe("app-at:" + st.point)
			}
			actor = f.AppCommit(n, ops)
		case aCrash:
			rs := f.crashable()
			n := rs[f.T.Choose("crash-node", len(rs))]
			f.noteStop(n)
			n.Crash()
			f.Stats.Crashes++
			f.Sim.Fault("crash")
			actor = Actor{Kind: "harness", Node: n, At: time.Now()}
		case aCancel:
			rs := f.crashable()
			n := rs[f.T.Choose("cancel-node", len(rs))]
			f.Sim.Logf("  node %s cancel", n.Name)
			f.noteStop(n)
			n.Cancel()
			f.Stats.Cancels++
			f.Sim.Fault("cancel")
			actor = Actor{Kind: "harness", Node: n, At: time.Now()}
		case aRestart:
			ss := f.stopped()
			n := ss[f.T.Choose("restart-node", len(ss))]
			f.restart(n)
			actor = Actor{Kind: "harness", Node: n, At: time.Now()}
		case aPart:
			rs := f.running()
			n := rs[f.T.Choose("part-node", len(rs))]
			d := time.Duration(1+f.T.Choose("part-s", 20)) * time.Second
			f.Bucket.Partition[n.Name] = f.Sim.Now() + d
			f.Sim.Fault("partition")
			f.Sim.Logf("  partition %s for %s", n.Name, d)
		}
		f.lastNode = next
		// everybody durably blocked or parked before looking at who returned
		f.Sim.Quiesce()
		f.reapCancelled()
	}
	f.Sim.Quiesce()
	f.observe(actor)
}

// reapCancelled notices nodes whose Sync returned (cancel or error).
func (f *Fleet) reapCancelled() {
	for _, n := range f.Nodes {
		if n.Running && !f.Excluded[n] {
			if ret, _ := n.SyncReturned(n.Inc); ret {
				// The sync loop is gone; make sure the rest is too.
				f.noteStop(n)
				n.Crash()
			}
		}
	}
}

func (f *Fleet) restart(n *Node) {
	if f.Cfg.RestartEmpty > 0 && f.T.Chance("restart-empty", f.Cfg.RestartEmpty) {
		if err := n.ResetLMDB(); err != nil {
			panic(err)
		}
		n.mu.Lock()
		n.loaded = nil
		n.mu.Unlock()
		f.Stats.EmptyRestarts++
		f.Sim.Fault("restart-empty")
		st, _ := DumpEnv(n.Env)
		st.envPtr = n.Env
		f.state[n] = st
	}
	if err := n.Start(); err != nil {
		panic(err)
	}
	f.Stats.Restarts++
}

func (f *Fleet) pickAppNode(parked []*Task) *Node {
	c := f.Cfg
	var cands []*Node
	for _, n := range f.Nodes {
		if f.Excluded[n] {
			continue
		}
		// Shadow mode: the application only commits in steady state (syncer
		// running and past its start-up pass); changes made while it is down
		// or starting are documented to be treated differently.
		if n.Native || c.AppWhileDown || n.Steady() {
			cands = append(cands, n)
		}
	}
	if len(cands) == 0 {
		return nil
	}
	if len(c.PreferPoints) > 0 && f.T.Chance("app-prefer", c.PreferBias) {
		var pref []*Node
		for _, n := range cands {
			if st := syncTaskOf(parked, n); st != nil {
				for _, p := range c.PreferPoints {
					if st.point == p {
						pref = append(pref, n)
						break
					}
				}
			}
		}
		if len(pref) > 0 {
			return pref[f.T.Choose("app-node-pref", len(pref))]
		}
	}
	return cands[f.T.Choose("app-node", len(cands))]
}

// Drain is phase 2: faults off, applications silent, every node running.
// It runs for the given simulated duration.
func (f *Fleet) Drain(d time.Duration) {
	f.Phase = "drain"
	f.Bucket.Cfg.Active = false
	f.Bucket.Partition = map[string]time.Duration{}
	f.Bucket.StoreFailures = map[string]int{}
	f.Sim.Logf("-- drain for %s", d)
	f.Sim.Quiesce()
	f.reapCancelled()
	for _, n := range f.stopped() {
		if err := n.Start(); err != nil {
			panic(err)
		}
		f.Stats.Restarts++
	}
	end := f.Sim.Now() + d
	actor := Actor{Kind: "none"}
	drainRestarts := map[*Node]int{}
	for f.Sim.Now() < end {
		f.Sim.Quiesce()
		f.observe(actor)
		if f.Failed() && f.StopOnViol {
			return
		}
		actor = Actor{Kind: "none", At: time.Now()}
		// An instance whose Sync returned (an upload that had exhausted its
		// retry budget just before the faults stopped) is restarted, as a
		// service manager would.
		f.Sim.Quiesce()
		f.reapCancelled()
		parked := f.Sim.Quiesce()
		if st := f.stopped(); len(st) > 0 {
			restarted := false
			for _, n := range st {
				if drainRestarts[n] >= 3 {
					continue // keeps failing (e.g. a malformed stored value): leave it down
				}
				drainRestarts[n]++
				if err := n.Start(); err != nil {
					panic(err)
				}
				f.Stats.Restarts++
				restarted = true
			}
			if restarted {
				f.Sim.Sleep(100 * time.Millisecond)
				continue
			}
		}
		if len(parked) == 0 {
			f.Sim.Idle(end - f.Sim.Now())
			continue
		}
		t := parked[f.T.Choose("run", len(parked))]
		f.Sim.Sleep(time.Duration(1+f.T.Choose("dns", 50)) * time.Microsecond)
		actor = Actor{Kind: "ls", Node: t.Node, Task: t, At: time.Now()}
		f.Sim.Release(t)
	}
	f.Sim.Quiesce()
	f.observe(actor)
}

func (f *Fleet) Finish() {
	f.Stats.Steps = f.Sim.Step
	f.Stats.SimTime = f.Sim.Now()
	if f.Failed() && f.StopOnViol {
		return
	}
	for _, m := range f.Mon {
		m.AtEnd(f)
	}
}

// DrainTime is a simulated duration that lets an idle fleet exchange
// everything: several poll rounds plus retry slack.
func (c FleetCfg) DrainTime() time.Duration {
	k := c.DrainFactor
	if k == 0 {
		k = 12
	}
	return time.Duration(k)*(c.Poll+c.StPoll) + 4*c.Retry
}

// --- bucket views used by several oracles ---

// SnapInfo is a decoded snapshot object in the bucket.
type SnapInfo struct {
	Name     string
	Instance string
	TS       time.Time
	Ref      *RefSnapshot
	Err      error
}

// NewestByInstance returns, per instance, the last-sorted snapshot name of
// the database (independent name parser).
func (f *Fleet) NewestByInstance() map[string]string {
	out := map[string]string{}
	for _, name := range f.Bucket.Names() {
		pn, ok := ParseSnapName(name)
		if !ok || pn.DB != DBName {
			continue
		}
		if cur, exists := out[pn.Instance]; !exists || name > cur {
			out[pn.Instance] = name
		}
	}
	return out
}

// PName is the result of the harness's own snapshot name parser, written
// from docs/snapshots.md: <db>__<instance>__<YYYYMMDD-HHMMSS-nnnnnnnnn>__<gen>[__extra...].pb.gz
type PName struct {
	DB, Instance, TSString, Gen string
	Extra                       []string
	TS                          time.Time
}

func ParseSnapName(name string) (PName, bool) {
	var p PName
	if !strings.HasSuffix(name, ".pb.gz") {
		return p, false
	}
	base := strings.TrimSuffix(name, ".pb.gz")
	if strings.Contains(base, ".") {
		return p, false
	}
	parts := strings.Split(base, "__")
	if len(parts) < 4 {
		return p, false
	}
	p.DB, p.Instance, p.TSString, p.Gen = parts[0], parts[1], parts[2], parts[3]
	p.Extra = parts[4:]
	if len(p.TSString) != 25 || p.TSString[8] != '-' || p.TSString[15] != '-' {
		return p, false
	}
	ts, err := time.Parse("20060102-150405.000000000", p.TSString[:15]+"."+p.TSString[16:])
	if err != nil {
		return p, false
	}
	p.TS = ts
	return p, true
}

// Premise checks the precondition of the convergence properties: every
// running instance's newest snapshot reflects its final stored content, and
// every instance has merged the newest snapshot of every other instance.
// It returns "" if the premise holds, else the reason.
func (f *Fleet) Premise() string {
	return f.PremiseWith(f.NewestByInstance())
}

// PremiseWith is Premise for a given choice of "newest snapshot per
// instance" (e.g. the newest decodable ones when hostile blobs are around).
func (f *Fleet) PremiseWith(newest map[string]string) string {
	for _, n := range f.Nodes {
		if !n.Running {
			return "node " + n.Name + " not running"
		}
		if ret, _ := n.SyncReturned(n.Inc); ret {
			return "node " + n.Name + " has stopped"
		}
		if ks := f.UncapturedKeys(n); len(ks) > 0 {
			return "node " + n.Name + " has uncaptured application changes (" + ks[0] + ")"
		}
	}
	// Everything published: every version an instance stores is contained
	// in (or beaten by) the join of the newest snapshots in the bucket.
	pub := map[string]map[string]map[Version]bool{}
	maxTS := map[string]map[string]uint64{}
	for _, inst := range sortedKeys(newest) {
		data, _ := f.Bucket.Get(newest[inst])
		ref, err := RefDecode(data)
		if err != nil {
			return "newest snapshot of " + inst + " undecodable"
		}
		for dbi, m := range RefLogical(ref) {
			for k, v := range m {
				f.addVersion(pub, dbi, k, v)
				if maxTS[dbi] == nil {
					maxTS[dbi] = map[string]uint64{}
				}
				if v.TS >= maxTS[dbi][k] {
					maxTS[dbi][k] = v.TS
				}
			}
		}
	}
	for _, y := range f.Nodes {
		content, _ := f.state[y].LogicalContent(y.Native)
		for _, dbi := range sortedKeys(content) {
			for _, k := range sortedKeys(content[dbi]) {
				v := content[dbi][k]
				if pub[dbi][k][v] {
					continue
				}
				// beaten: something strictly newer is published. (A published
				// version with the same timestamp does not cover this one: if
				// it won the tie, this instance would hold it after merging
				// it; if it lost, this version still has to be uploaded.)
				if mt, ok := maxTS[dbi][k]; ok && mt > v.TS {
					continue
				}
				return fmt.Sprintf("node %s holds unpublished %s/%q %s (newest snapshots considered: %v)", y.Name, dbi, k, v, newest)
			}
		}
	}
	// Everything merged: every instance has merged the newest snapshot of
	// every other instance.
	for _, yname := range sortedKeys(newest) {
		name := newest[yname]
		for _, x := range f.Nodes {
			if x.Name == yname {
				continue
			}
			found := false
			for _, ev := range x.LoadedEvents() {
				if ev.Name == name {
					found = true
				}
			}
			if !found {
				return "node " + x.Name + " has not merged " + name
			}
		}
	}
	return ""
}

func sortedKeys[M ~map[string]V, V any](m M) []string {
	var ks []string
	for k := range m {
		ks = append(ks, k)
	}
	sort.Strings(ks)
	return ks
}

var _ = snapshot.KindSnapshot
