#!/bin/bash
# Rewrites /verif/evidence/<id>.json by running every quick check once, with
# default settings, against the unchanged /repo (refuses to run otherwise).
HERE=$(cd "$(dirname "$0")" && pwd)
git -C /repo diff --quiet || { echo "/repo has local changes"; exit 9; }
cd "$HERE"
rc=0
for p in $(python3 -c "import json;print(' '.join(c['property_id'] for c in json.load(open('MANIFEST.json'))['checks']))"); do
  ./check $p quick 2>&1 | grep -a -v "KNOWN-FINDING\|minimised" | tail -1
  [ ${PIPESTATUS[0]} -gt 1 ] && rc=2
done
exit $rc
