#!/bin/bash
# usage: tools_seedrun.sh <seed-dir> <property> [budget_s] [tier]
# Applies a seeded change to /repo, runs the check, and always undoes the change.
D=$(realpath $1); P=$2; B=${3:-40}; T=${4:-quick}
cd /repo && git diff --quiet || { echo "/repo not clean"; exit 9; }
git -C /repo apply $D/patch.diff || { echo "patch does not apply"; exit 8; }
trap 'git -C /repo checkout -- . ; git -C /repo clean -fdq' EXIT
cd /verif && VERIF_BUDGET_S=$B ./check $P $T 2>&1 | cut -c1-400 | tail -12 | tr -cd "[:print:]\n"
echo "check-exit=${PIPESTATUS[0]}"
