"""Which simulation profiles decide which property, budgets, evidence text."""

FLEET_ASSUME = [
    "shadow mode: all instances share one monotone clock (documented operating assumption)",
    "native applications stamp each write above the version they overwrite locally (a well-behaved application; the non-monotone case is explored separately and reported as a finding)",
]

PROPS = {
    "C01": {
        "level": "exploration",
        "profiles": [{"name": "fleet-converge", "weight": 1}],
        "rule": "each case is one seeded run of 2-4 real instances (native or shadow) with generated application histories, "
                "schedules and bucket faults, followed by a fault-free drain; non-trivial = the premise of the property was reached "
                "(everything published, every instance merged every other instance's newest snapshot), at least two instances wrote the "
                "same key and at least one snapshot was downloaded; distinct = distinct SHA-256 of the full event log",
        "assumptions": FLEET_ASSUME,
    },
    "C03": {
        "level": "exploration",
        "profiles": [{"name": "fleet-appsafe", "weight": 1}],
        "rule": "each case is one seeded run of 2-3 real instances in which application commits are placed by the scheduler at the yield "
                "points of the sync loop, biased to the windows between the end of an LMDB transaction and the following env.Info(), "
                "before the change check, before SendOnce and inside the read-only dump; every Lightning Stream transaction is compared "
                "with the state before it; non-trivial = at least one LS transaction was checked and the application committed; "
                "distinct = distinct SHA-256 of the event log",
        "assumptions": FLEET_ASSUME,
    },
    "C09": {
        "level": "exploration",
        "profiles": [{"name": "fleet-publish", "weight": 1}],
        "rule": "as C03, plus Store failures below the retry budget; the oracle runs whenever a sync loop has completed a full poll "
                "iteration without local disturbance (idle) and at the end of the fault-free drain; non-trivial = at least one idle or "
                "end check was evaluated on a run with application commits; distinct = distinct SHA-256 of the event log",
        "assumptions": FLEET_ASSUME,
    },
}

ALL_PROFILES = sorted({p["name"] for c in PROPS.values() for p in c["profiles"]})
