"""Which simulation profiles decide which property, budgets, evidence text."""

FLEET_ASSUME = [
    "shadow mode: all instances share one monotone clock (documented operating assumption)",
    "native applications stamp each write above the version they overwrite locally (a well-behaved application; the non-monotone case is explored separately and reported as a finding)",
]

PROPS = {
    "C01": {
        "level": "exploration",
        "profiles": [{"name": "fleet-converge", "weight": 1}],
        "rule": "each case is one seeded run of 2-4 real instances (native or shadow) with generated application histories, "
                "schedules and bucket faults, followed by a fault-free drain; non-trivial = the premise of the property was reached "
                "(everything published, every instance merged every other instance's newest snapshot), at least two instances wrote the "
                "same key and at least one snapshot was downloaded; distinct = distinct SHA-256 of the full event log",
        "assumptions": FLEET_ASSUME,
    },
}

ALL_PROFILES = sorted({p["name"] for c in PROPS.values() for p in c["profiles"]})
