"""Which simulation profiles decide which property, budgets, evidence text."""

FLEET_ASSUME = [
    "shadow mode: all instances share one monotone clock (documented operating assumption)",
    "native applications stamp each write above the version they overwrite locally (a well-behaved application; the non-monotone case is explored separately and reported as a finding)",
]

PROPS = {
    "C01": {
        "level": "exploration",
        "profiles": [{"name": "fleet-converge", "weight": 1}],
        "rule": "each case is one seeded run of 2-4 real instances (native or shadow) with generated application histories, "
                "schedules and bucket faults, followed by a fault-free drain; non-trivial = the premise of the property was reached "
                "(everything published, every instance merged every other instance's newest snapshot), at least two instances wrote the "
                "same key and at least one snapshot was downloaded; distinct = distinct SHA-256 of the full event log",
        "assumptions": FLEET_ASSUME,
    },
    "C03": {
        "level": "exploration",
        "profiles": [{"name": "fleet-appsafe", "weight": 1}],
        "rule": "each case is one seeded run of 2-3 real instances in which application commits are placed by the scheduler at the yield "
                "points of the sync loop, biased to the windows between the end of an LMDB transaction and the following env.Info(), "
                "before the change check, before SendOnce and inside the read-only dump; every Lightning Stream transaction is compared "
                "with the state before it; non-trivial = at least one LS transaction was checked and the application committed; "
                "distinct = distinct SHA-256 of the event log",
        "assumptions": FLEET_ASSUME,
    },
    "C09": {
        "level": "exploration",
        "profiles": [{"name": "fleet-publish", "weight": 1}],
        "rule": "as C03, plus Store failures below the retry budget; the oracle runs whenever a sync loop has completed a full poll "
                "iteration without local disturbance (idle) and at the end of the fault-free drain; non-trivial = at least one idle or "
                "end check was evaluated on a run with application commits; distinct = distinct SHA-256 of the event log",
        "assumptions": FLEET_ASSUME,
    },
    "C06": {
        "level": "exploration",
        "profiles": [{"name": "fleet-image", "weight": 1}],
        "rule": "each case is one seeded run of 1-3 real instances with 2-3 DBIs and multi-DBI application transactions, "
                "application commits biased into the read-only dump of native mode, large values and header extension blocks; every "
                "uploaded blob is decoded with the reference codec and compared with the harness's record of the uploader's LMDB at the "
                "transaction id in its metadata; non-trivial = at least two snapshots checked and the application committed; distinct = "
                "distinct SHA-256 of the event log",
        "assumptions": FLEET_ASSUME,
    },
    "C14": {
        "level": "exploration",
        "profiles": [{"name": "fleet-header", "weight": 3}, {"name": "header-sim", "weight": 1}],
        "rule": "header-sim: a native DBI holds arbitrary byte strings as stored values (well-formed with and without extension blocks, too short incl. 8-23 bytes, other header versions, "
                "extension counts beyond the bytes present, plain bytes) and the real LoadOnce merges a peer snapshot with older/equal/newer entries for those keys: a malformed stored value the merge "
                "looks at must give an error and a byte-identical LMDB, over well-formed values the last-writer-wins result must be stored well-formed; fleet-header: each case is one seeded fleet run in which every value written by a Lightning Stream transaction is parsed by an "
                "independent header parser (docs/schema-native.md); native applications write extension blocks; in two thirds of the "
                "native runs a malformed value (too short, other version, missing extension blocks) is stored and the instance must stop "
                "with an error without uploading it; non-trivial = at least one LS-written value was checked; distinct = distinct "
                "SHA-256 of the event log",
        "assumptions": FLEET_ASSUME + ["the byte-string universe of stored values is sampled through what simulated applications store, not by a dedicated fuzzer"],
    },
    "C04": {
        "level": "exploration",
        "profiles": [{"name": "fleet-delete", "weight": 1}],
        "rule": "each case is one seeded delete-heavy fleet run (2-4 instances, restarts that re-merge old snapshots, bucket faults; in a third "
                "of the runs the tomb sweeper with generated retention / load-cutoff configurations on the fake clock); every LS transaction is "
                "checked for 'a stored deletion is only replaced by a version above it' and 'no expired marker re-created', every upload for "
                "'all markers travel', the end state for 'winning deletions are absent everywhere'; non-trivial = deletion markers were stored "
                "while snapshots were merged; distinct = distinct SHA-256 of the event log",
        "assumptions": FLEET_ASSUME,
    },
    "C05": {
        "level": "exploration",
        "profiles": [{"name": "fleet-bucket", "weight": 1}],
        "rule": "each case is one seeded fleet run with cleaners on (short generated intervals), crash/restart with kept or emptied LMDB at "
                "scheduler-chosen yield points, failing List/Load/Store/Delete before or after their effect; after every bucket mutation the "
                "LWW join over the newest decodable snapshot of every instance is recomputed and must not lose a key or go back in time; "
                "plus: no upload before the own newest snapshot was merged, a Store failing beyond the retry budget ends Sync with an error; "
                "non-trivial = at least two bucket mutations checked with application writes; distinct = distinct SHA-256 of the event log",
        "assumptions": FLEET_ASSUME,
    },
    "C10": {
        "level": "exploration",
        "profiles": [{"name": "fleet-quiesce", "weight": 1}],
        "rule": "each case is one seeded fleet history (native/shadow, with/without header padding, 2-4 instances) driven to convergence, "
                "followed by a silent phase (no uploads, LastTxnID constant on every instance) and a restart of one instance whose start-up "
                "snapshot carries nothing new (others: no upload, no LMDB commit; restarted one: at most one upload); non-trivial = convergence "
                "premise reached with application writes and downloads; distinct = distinct SHA-256 of the event log",
        "assumptions": FLEET_ASSUME,
    },
    "C12": {
        "level": "exploration",
        "profiles": [{"name": "cleaner-sim", "weight": 2}, {"name": "fleet-cleaner", "weight": 2}, {"name": "fleet-receiveonly", "weight": 1}],
        "rule": "cleaner-sim: each case is one seeded evolution of a bucket (1-4 instances publishing in timestamp order and going silent, "
                "foreign and near-miss object names, deletions by others) against the real cleaner.Worker.Run on the fake clock, with generated "
                "interval configurations, late/partial merge-commit notifications and failing, slow or lagging List/Delete calls; every Delete the "
                "cleaner issues is judged by a reference permission model written from the statement, and superseded files must be gone after a "
                "fault-free settling time; fleet-cleaner: the cleaners of real instances in a fleet run are judged by the same model against what the instance really merged and uploaded; fleet-receiveonly: a receive-only instance in a real fleet must never store or delete; non-trivial = the "
                "cleaner issued at least one Delete (or the receive-only instance merged a snapshot); distinct = distinct SHA-256 of the event log",
        "real": "cleaner.Worker (Run, RunOnce, SetCommitted), snapshot.ParseName, utils.SleepContextPerturb; fleet-receiveonly: the whole syncer",
        "assumptions": ["a file is 'first seen' when the cleaner issues the List call that first returns it"],
    },
    "C16": {
        "level": "exploration",
        "profiles": [{"name": "receiver-sim", "weight": 3}, {"name": "fleet-runonce", "weight": 1}],
        "rule": "receiver-sim: each case is one seeded bucket evolution (1-7 instances incl. more instances than tokens, publishing, being "
                "cleaned, undecodable blobs) against the real receiver (Run loop, downloaders, both token limits 1..3) with the harness as "
                "merge loop calling Next/Close at drawn speeds, under failing/slow/lagging List and Load calls and vanishing objects; oracles: "
                "token gauges never above the configured limits at any step, delivery order per instance, nothing undecodable delivered, after the "
                "faults stop the newest decodable snapshot of every other instance is delivered within a stated bound, no token held after "
                "everything is closed; fleet-runonce: a real instance with only_once ends by itself exactly after merging the newest snapshot of "
                "every instance present at start-up; non-trivial = at least two snapshots delivered (or the run-once instance returned); "
                "distinct = distinct SHA-256 of the event log",
        "real": "receiver.Receiver (Run, RunOnce, Next, MarkCorrupt), Downloader, climit, snapshot.LoadData; fleet-runonce: the whole syncer",
        "assumptions": ["the number of held snapshots is read from the repository's own lightningstream_climit_active gauge"],
    },
    "C13": {
        "level": "exploration",
        "profiles": [{"name": "sweeper-sim", "weight": 1}],
        "rule": "each case is one pass of the real tomb sweeper over a real LMDB (1-3 DBIs of 150-3600 entries, live entries and runs of "
                "identical markers with timestamps on both sides of and exactly at the cut-off, native and non-native) whose write-lock slices are "
                "ended by the scheduler at the limit scanner's deadline checks, with an application committing puts, markers and real deletes "
                "between slices biased to the resume key; the end state is compared entry by entry with the start state; non-trivial = at least one "
                "forced slice end and at least one expired marker; distinct = distinct SHA-256 of the event log",
        "real": "sweeper.Sweeper (one pass via the guarded VerifSweep wrapper), limitscanner, header parser, LMDB",
        "assumptions": ["the pass's cut-off is taken at the instant the pass is started (no fake time passes inside a scheduler step)"],
    },
    "C02": {
        "level": "exploration",
        "profiles": [{"name": "merge-delivery", "weight": 1}],
        "rule": "each case is one delivery simulation: a pool of 2-5 versions of 1-2 keys (absent/live/deleted, timestamps from a lattice with ties and 0, "
                "values incl. empty) is delivered through the real decoder, NativeIterator and strategy.Update to 2-3 replica DBIs in independently drawn orders, "
                "with duplicates, late re-deliveries, pre-merged groups (associativity) and snapshot format versions 1-3, for stale-deletion cutoffs 0/7/15; "
                "one run in five exercises the default-timestamp (shadow capture) use; non-trivial = at least two versions in the pool; distinct = distinct "
                "SHA-256 of the event log",
        "real": "snapshot.NewDBIFromData/DBI.Next (decoder), syncer.NativeIterator, strategy.Update, header, LMDB",
        "stub": "transport (delivery order, duplication, grouping drawn from the seed); versions are encoded with the generated reference codec",
        "assumptions": ["with a stale-deletion cutoff above a deletion in the pool, order-insensitivity is not judged (the cutoff rule depends on presence by design)"],
    },
    "C19": {
        "level": "exploration",
        "profiles": [{"name": "strategy-sim", "weight": 1}],
        "rule": "each case is a seeded sequence of 3-12 operations (Update, IterUpdate, EmptyPut with a scripted iterator whose keep/replace/delete decisions are drawn per key; "
                "raw application puts incl. empty values; aborted transactions; a 96KB map that fills up; unsorted and repeated input keys) against one real LMDB DBI and a "
                "reference map, over byte keys (0x00/0xff, prefixes), ~500-byte keys, and MDB_INTEGERKEY DBIs with 4- and 8-byte keys incl. 0 and values above 2^31; "
                "non-trivial = at least two operations committed; distinct = distinct SHA-256 of the event log",
        "real": "strategy.Update, strategy.IterUpdate, strategy.EmptyPut, iterBoth, setNewVal, LMDB",
        "stub": "none (no scheduler or clock involved: model-conformance half of the technique)",
        "assumptions": [],
    },
    "C07": {
        "level": "exploration",
        "profiles": [{"name": "wire-sim", "weight": 1}],
        "rule": "each case is one generated snapshot content (0-4 DBIs with names up to 511 bytes, arbitrary flags/transforms, 0-1200 entries with key and value sizes on both sides "
                "of the 1/2/3/4-byte length-varint boundaries, empty values, timestamps 0..2^64-1, arbitrary entry flags, metadata strings up to 1200 bytes) sent real writer -> reference "
                "reader, real writer -> real reader, and foreign writer (independent encoder, permuted field order, unknown fields of wire types 0/1/2/5 at snapshot, meta, DBI and entry "
                "level) -> real reader, compared with what the generated reference codec reads; non-trivial = the content has entries; distinct = distinct SHA-256 of the event log",
        "real": "snapshot.Snapshot/DBI/KV/Meta encoders and decoders, DumpData/LoadData (gzip)",
        "stub": "peers speaking the published schema: the generated gogo codec and an independent protobuf writer; no scheduler or clock involved",
        "assumptions": ["the input universe is sampled by a seeded generator through the simulated transport, not by a dedicated codec fuzzer (lower density over byte-level encodings)"],
    },
    "C18": {
        "level": "fault_enumeration",
        "profiles": [{"name": "atomic-sim", "weight": 1}],
        "rule": "each case is a sequence of 3-8 snapshot deliveries from a foreign peer (independent encoder) to the real Syncer.LoadOnce on a real LMDB with existing data, "
                "native or shadow mode; the failure point is drawn from the enumerated list {format version 0, compat version 4-6, newer format with old compat, unknown transform, "
                "inconsistent transform/flags, transform in native mode, DBI not creatable from a pre-v3 snapshot, malformed entry k of DBI j, private DBI, full map at DBI j, "
                "cancellation after DBI j}; every run reports which kinds it hit (counts fault:*); a reader goroutine inspects the LMDB at every point inside the merge; "
                "non-trivial = at least one successful merge and two kinds of delivery; distinct = distinct SHA-256 of the event log",
        "real": "Syncer.LoadOnce, NativeIterator, strategy.Update, mainToShadow/shadowToMain, snapshot decoder, ValidateTransform, LMDB",
        "stub": "the delivering peer (independent encoder); LoadOnce is called by the driver itself (no sync loop)",
        "assumptions": ["the failure kinds are enumerated, their positions (DBI j, entry k, round) are sampled"],
    },
    "C08": {
        "level": "exploration",
        "profiles": [{"name": "hostile-sim", "weight": 1}, {"name": "fleet-hostile", "weight": 2}],
        "rule": "hostile-sim: each case feeds 20-80 blobs (random bytes, truncations and bit flips of a valid blob, valid gzip around flipped protobuf, zero bombs, and "
                "structurally plausible messages with lengths of 2^31..2^64-1, lengths past the end, wire types 3/4/6/7, overlong varints and huge field numbers at snapshot, "
                "meta, DBI and entry level) to the real LoadData followed by a full iteration as a merge would do; fleet-hostile: the same blobs are placed by a hostile publisher "
                "among the snapshots of 2-3 honest real instances (under a foreign name and under the honest instances' own names, with restarts and bucket faults), and after a "
                "fault-free drain every instance must have merged the newest decodable snapshot of every instance and published its own data; a panic anywhere kills the worker "
                "and is confirmed in isolation; non-trivial = at least one blob was rejected (hostile-sim) / at least one undecodable blob was placed and snapshots were "
                "downloaded (fleet-hostile); distinct = distinct SHA-256 of the event log",
        "assumptions": FLEET_ASSUME + ["memory proportionality is not measured; time is bounded by an iteration cap and the worker watchdog"],
    },
    "C11": {
        "level": "exploration",
        "profiles": [{"name": "fleet-shadow", "weight": 1}],
        "rule": "each case is one seeded run of 2-3 real shadow-mode instances whose applications put, overwrite and delete in byte-key DBIs, MDB_INTEGERKEY DBIs "
                "(4- and 8-byte keys incl. 0, 2^31, 2^32-1, 2^63, 2^64-1), a DBI created while the syncer runs, with empty values in half of the runs, under bucket "
                "faults, steady state only (no restarts); after every Lightning Stream transaction a map-based reference of the mirror is evaluated: every application "
                "change since the previous step is captured as a version stamped with the detection time, untouched entries keep their timestamps, after a merge the "
                "application DBIs equal the live entries of the merged state; non-trivial = at least one capture checked and snapshots downloaded; distinct = distinct "
                "SHA-256 of the event log",
        "assumptions": FLEET_ASSUME,
    },
    "C20": {
        "level": "exploration",
        "profiles": [{"name": "dupsort-sim", "weight": 1}],
        "rule": "each case is a seeded sequence of 2-6 rounds of application changes to a real MDB_DUPSORT DBI (keys of 1-255 bytes, values with zero bytes at the separator "
                "position, values longer than the space left in the shadow key, values that differ only beyond it, shared prefixes) each followed by one full mirror cycle of a "
                "real shadow-mode syncer with dupsort_hack (main-to-shadow, dump, shadow-to-main in one transaction); an independent encoder/decoder written from the documented "
                "layout decides whether the data is mappable; non-trivial = at least one mirror cycle succeeded; distinct = distinct SHA-256 of the event log",
        "real": "Syncer.mainToShadow/shadowToMain/readDBI (through the guarded wrappers), dupSortHackEncode/Decode, strategy.IterUpdate/EmptyPut, LMDB",
        "stub": "the application (seeded change sequences); no scheduler or clock dependence",
        "assumptions": ["remote merges into dupsort DBIs are covered only through the shared merge path (C02/C18), not in this profile"],
    },
    "C17": {
        "level": "exploration",
        "profiles": [{"name": "fleet-bucket", "weight": 2, "race": True, "chunk": 40, "env": {"LSSIM_KEEP_HEALTH": 1, "LSSIM_PROPERTY": "C17"}},
                     {"name": "fleet-converge", "weight": 1, "race": True, "chunk": 40, "env": {"LSSIM_KEEP_HEALTH": 1, "LSSIM_PROPERTY": "C17"}},
                     {"name": "fleet-delete", "weight": 1, "race": True, "chunk": 40, "env": {"LSSIM_KEEP_HEALTH": 1, "LSSIM_PROPERTY": "C17"}},
                     {"name": "fleet-hostile", "weight": 1, "race": True, "chunk": 40, "env": {"LSSIM_KEEP_HEALTH": 1, "LSSIM_PROPERTY": "C17"}},
                     {"name": "fleet-bucket", "weight": 1, "env": {"LSSIM_PROPERTY": "C17"}},
                     {"name": "conc-inst", "weight": 2, "chunk": 1, "env": {"LSSIM_MIN_TRIALS": 0}}],
        "quick_s": 75,
        "rule": "race part: the fleet-bucket (cleaners on, crashes, faults), fleet-converge, fleet-delete (tomb sweeper on in a third of the runs) and fleet-hostile (undecodable blobs: the corrupt-snapshot paths) profiles run in the -race build with the health tracker goroutines left running; the scheduler hides its own hand-off from the detector "
                "(runtime.RaceDisable around park/release), so each run is a happens-before race check of exactly the interleaving it executed; only reports in which at least one of the two "
                "conflicting accesses is made by repository code count; deadlock part (conc-inst; a third of its runs are API-level schedules as described here, the rest statement-level): seeded API-level schedules over utils/topics (publish, subscribe, next, close incl. close "
                "while a publish to that subscriber is in flight, failing Handle callback), utils/climit (release from any goroutine, repeatedly) and snapshot/storage (GetGlobal before, "
                "after and concurrent with SetGlobal) with real goroutines outside the bubble; conc-inst runs the same schedules in a binary built from a scratch copy of /repo's working tree "
                "in which utils/climit, utils/topics and snapshot/storage carry a yield before every statement (go/ast rewriting at build time): the tape also decides, statement by statement, "
                "which goroutine inside these primitives moves next, so atomicity violations without a data race (two goroutines inside Token.Release at once) are reachable and replayable; after every schedule whose subscriptions were all drained or closed and tokens released, no "
                "actor may remain blocked (goroutine stacks are inspected) or have panicked; cancellation part: in all fleet runs of this check graceful context cancels are generated harness "
                "actions (10-25 permille of steps, at whatever yield the node's goroutines are parked, also during start-up and under storage faults); after one, the sync loop may pass at most 150 "
                "further yield points and may not stay blocked outside a yield for 300 scheduler steps and 30 simulated seconds before Sync has returned; only C17 oracles count in these runs; non-trivial = the run executed at least two concurrent actors; distinct = distinct SHA-256 "
                "of the event log",
        "assumptions": FLEET_ASSUME + ["the race detector only sees the interleavings executed; interleavings finer than the yield points are covered only as far as the detector's happens-before analysis generalises them"],
    },
    "C15": {
        "level": "exploration",
        "profiles": [{"name": "names-sim", "weight": 1}],
        "rule": "each case takes one raw instance name (dots, underscores, double underscores, unicode, spaces, slashes, 240 characters) and one database name over the safe "
                "alphabet; a real syncer uploads 2-4 snapshots at simulated instants separated by gaps that produce nanosecond/second/minute/day carries; the stored names are "
                "parsed by an independent parser written from the documented format and by ParseName (round trip, safe character set, time within the upload window, byte order = time "
                "order); a real receiver then lists the bucket among foreign and near-miss names and must deliver exactly the newest snapshot and load nothing else; a seeded "
                "sweep builds and parses names for timestamps across 1970-2262 (epoch, 2^31 s, 2038, 2099, 2262-04-11 and nanosecond neighbours) incl. extra name items, and a list "
                "of arbitrary strings is fed to the parser; non-trivial = at least two uploads; distinct = distinct SHA-256 of the event log",
        "real": "Syncer.instanceID/SendOnce, snapshot.NameInfo.BuildName/ParseName, receiver.RunOnce/Next, Downloader",
        "stub": "bucket (SimBucket, no faults), clock (testing/synctest)",
        "assumptions": ["the name functions are pure: beyond the upload/delivery path this is seeded input generation, and arbitrary strings are a fixed list plus what the bucket holds"],
    },
}

# conc-inst is not part of the determinism self-test: between its yields it
# runs on the real Go runtime (see DESIGN.md 9.3b)
ALL_PROFILES = sorted({p["name"] for c in PROPS.values() for p in c["profiles"]} - {"conc-inst"})


SIM_NOTE = ("Assumes: LMDB's own durability/isolation (real LMDB, no torn pages), the yield points as the granularity of interleaving "
            "(every bucket call, every blocking wake-up, the sync-loop decision points, every LMDB transaction boundary - an instrumented copy of the lmdb-go wrapper - "
            "and the windows around LS's transactions), "
            "sampling not enumeration: a clean batch is evidence, not proof.")

MANIFEST_TEXT = {
    "C01": {"text": "Seeded search over application histories, schedules and bucket faults for 2-4 real instances; after a fault-free drain "
                    "the precondition of the property is established from observable facts and then all instances must hold identical logical "
                    "content that is the max-timestamp version of everything ever written. Exploration is the right level: the property "
                    "quantifies over unbounded histories and schedules.",
            "note": SIM_NOTE, "technique": "deterministic simulation (fleet of real instances, seeded scheduler, fault injection) + LWW reference oracle"},
    "C03": {"text": "Application commits are placed by the scheduler at every yield kind of the sync loop (biased to the txn-end -> env.Info windows); "
                    "every LS transaction is compared with the state before it: it may change a key only to a version that wins LWW, and an "
                    "uncaptured local write must survive.",
            "note": SIM_NOTE, "technique": "deterministic simulation with scheduler-placed application commits + per-transaction invariant"},
    "C06": {"text": "Every uploaded blob is decoded with the generated reference codec and compared with the harness's own record of the uploader's "
                    "LMDB at the transaction id named in the metadata (content, DBI set and flags, no private DBIs, no extra bytes, name/meta/time monotone), "
                    "with application commits scheduled inside the dump.",
            "note": SIM_NOTE, "technique": "deterministic simulation + reference decode of every uploaded snapshot against recorded LMDB images"},
    "C09": {"text": "Bounded liveness: whenever a sync loop has completed a full poll iteration without local disturbance, and at the end of the "
                    "fault-free drain, every locally originated version must be in the instance's newest snapshot; Store failures below the retry "
                    "budget, forced snapshot intervals and an outside cleaner that removes an instance's snapshots during its start-up are injected.",
            "note": SIM_NOTE, "technique": "deterministic simulation + bounded-liveness oracle at idle points"},
    "C14": {"text": "Every value written by an LS transaction in any fleet run of the profile is parsed by an independent header parser "
                    "(version, flags, reserved, extension count, txn id of the writing transaction, empty value when deleted); malformed stored values "
                    "are injected and must stop the instance with an error instead of being uploaded; header-sim puts arbitrary byte strings under the real LoadOnce "
                    "(malformed => error and unchanged LMDB; well-formed, incl. extension blocks => last-writer-wins result stored well-formed); a foreign peer "
                    "publishes entries with flag bits outside the synced set.",
            "note": SIM_NOTE + " The universe of all byte strings is sampled by header-sim's generator (lengths 0..47, versions, extension counts up to 65535, plain bytes) and by what simulated applications and peers store.",
            "technique": "deterministic simulation + independent header parser as invariant, stored-byte faults"},
    "C04": {"text": "Delete-heavy fleet histories with restarts that re-merge old snapshots and, in a third of the runs, the tomb sweeper under generated "
                    "retention/load-cutoff configurations on the fake clock; per-transaction oracle 'a stored deletion is only replaced by a version above it', "
                    "per-merge oracle 'every deletion in a merged snapshot took effect', per-upload oracle 'all markers travel', no expired marker re-created.",
            "note": SIM_NOTE, "technique": "deterministic simulation (fleet, fake clock for retention periods) + per-transaction and per-merge invariants"},
    "C05": {"text": "Fleet runs with cleaners on, crash/restart (LMDB kept or emptied) at scheduler-chosen yield points and List/Load/Store/Delete faults before or after "
                    "their effect; after every bucket mutation the LWW join over the newest decodable snapshots must not lose or move back a key; plus the own-snapshot-first "
                    "and fatal-store-failure clauses. Crash points are sampled, not enumerated, hence exploration.",
            "note": SIM_NOTE, "technique": "deterministic simulation with crash/restart and storage fault injection + monotone-join invariant over the bucket"},
    "C10": {"text": "Fleet histories are driven to convergence, then a silent phase (zero uploads, LastTxnID constant) and a restart of one instance whose start-up snapshot "
                    "carries nothing new (others neither upload nor commit) are checked.",
            "note": SIM_NOTE, "technique": "deterministic simulation + quiescence oracle over bucket log and LMDB transaction ids"},
    "C12": {"text": "The real cleaner.Worker.Run on the fake clock against generated bucket evolutions, notifications and List/Delete faults; every Delete is judged by a "
                    "reference permission model written from the statement; the same model judges the cleaners of real instances in fleet runs; bounded-time removal of "
                    "superseded files; receive-only instances stay silent.",
            "note": SIM_NOTE + " A file counts as first seen when the cleaner issues the List call that first returns it.",
            "technique": "deterministic simulation (component + fleet) + reference permission model"},
    "C16": {"text": "The real receiver with its downloaders and token limits against generated bucket evolutions and List/Load faults, the harness as merge loop at drawn speeds: "
                    "token gauges within limits at every step, nothing undecodable delivered, bounded-time delivery of the newest decodable snapshot once faults stop, no token held after "
                    "drain; run-once instances end exactly after merging everything present at start-up.",
            "note": SIM_NOTE + " Held snapshots are counted through the repository's own lightningstream_climit_active gauge.",
            "technique": "deterministic simulation (component + fleet) + safety invariant on token gauges + bounded liveness"},
    "C13": {"text": "One real sweeper pass per run over thousands of generated entries, sliced at scheduler-chosen deadline checks, with application commits "
                    "between slices aimed at the resume key; exact comparison: removed = expired untouched markers, everything else byte-identical, application DBIs untouched in non-native mode.",
            "note": SIM_NOTE, "technique": "deterministic simulation (component, buggified slice deadlines, interleaved application commits) + exact before/after model"},
    "C02": {"text": "Order, multiplicity and grouping of deliveries are transport behaviour: version pools are delivered to several replicas through the real decode+merge path in "
                    "independently drawn orders with duplicates and pre-merged groups; replicas that received the same set must agree, no delivery moves a key backwards (a tie "
                    "replacement a->b forbids b->a), and a losing delivery leaves bytes and LastTxnID untouched.",
            "note": SIM_NOTE, "technique": "deterministic delivery simulation (seeded order/duplication/grouping) over the real merge path + join oracle"},
    "C19": {"text": "Seeded operation and fault sequences (abort, map full, unsorted input) against one real DBI with an in-memory reference map; content must equal the scripted "
                    "iterator's decisions applied in the DBI's own key order; failed operations leave no trace; valid input is never rejected.",
            "note": "No scheduler or clock is involved; this is the model-conformance half of the technique (seeded sequences, reference model, shrinking, replay).",
            "technique": "seeded operation/fault sequences against a reference model (simulation without scheduler)"},
    "C07": {"text": "Version skew on the wire: generated contents travel real->standard, real->real and foreign (every legal re-encoding: field order, unknown fields of every wire "
                    "type at every level) ->real, always compared with the generated reference codec; sizes cross all length-varint boundaries.",
            "note": "The codec is a pure function; the simulation adds seeded generation, shrinking and replay, not schedule exploration. Density over byte-level encodings is lower than a dedicated fuzzer's.",
            "technique": "seeded transport simulation between real codec, generated reference codec and an independent re-encoder (no scheduler)"},
    "C18": {"text": "Fault enumeration over the list of failure kinds of a merge (versions 0..6, transforms, uncreatable DBI, malformed entry, private DBI, full map, cancellation) with sampled "
                    "positions: a failed LoadOnce must leave the LMDB byte-identical with the same LastTxnID, a concurrent reader never sees a partial merge, refusals are mandatory where "
                    "the statement says so, successful merges follow the documented meaning of format versions 1-3.",
            "note": SIM_NOTE, "technique": "deterministic simulation with enumerated fault kinds injected into the real merge transaction + byte-exact before/after comparison"},
    "C08": {"text": "Hostile and corrupt blobs are fed to the real decoder (component) and placed among honest snapshots in fleet runs with restarts and faults; a panic or hang "
                    "anywhere is a violation, and after the faults stop honest traffic must still be merged and published.",
            "note": SIM_NOTE + " Memory use is not measured.", "technique": "deterministic simulation with hostile-input injection at the bucket seam + bounded liveness after faults stop"},
    "C11": {"text": "Shadow-mode fleets with integer-key DBIs, empty values and DBI creation; a map-based reference of the mirror is evaluated after every LS transaction "
                    "(capture with detection-time stamp, untouched entries keep timestamps, application DBIs = live entries after a merge).",
            "note": SIM_NOTE, "technique": "deterministic simulation (shadow-mode fleet) + map-based mirror reference evaluated per transaction"},
    "C20": {"text": "Seeded change sequences on a real dupsort DBI, each followed by a full mirror cycle of the real shadow-mode syncer; an independent implementation of the documented "
                    "layout decides mappability: mappable data must survive the cycle pair for pair with decodable, distinct, legal shadow keys and a stated transform; unmappable data must be refused "
                    "with the LMDB byte-identical.",
            "note": "No scheduler or clock dependence; seeded sequences, reference model, shrinking, replay.", "technique": "seeded operation sequences against an independent reference encoder (simulation without scheduler)"},
    "C17": {"text": "Two parts. Races: fleet profiles run in the -race build with the scheduler's own hand-off hidden from the detector, so every run is a happens-before race check of the "
                    "interleaving it executed (reports count only if repository code makes one of the conflicting accesses). Deadlocks/wedges: seeded API-level schedules over topics, "
                    "climit and the global storage with real goroutines, quiescence detected from goroutine dumps; a goroutine still blocked after everything was closed, cancelled "
                    "and released is reported with the states of the goroutines involved; the same schedules also run statement by statement inside utils/climit, utils/topics and snapshot/storage "
                    "(a scratch copy of the working tree instrumented with a yield before every statement; the tape picks which goroutine moves next). Cancellation: graceful context cancels are generated at arbitrary yields of running instances "
                    "(incl. start-up, under storage faults); Sync must return before its loop has passed 400 further yield points; at the end of every fleet run all instances are cancelled and no goroutine of theirs may remain blocked in repository code.",
            "note": SIM_NOTE + " The race part covers executed interleavings only; conc-inst detects quiescence by polling goroutine states (real runtime between its yields: a tape has a few variants, violations are confirmed by up to 16 replays and not minimised).",
            "technique": "deterministic simulation in the -race build (scheduler hand-off hidden from the detector) + API-level and statement-level (go/ast-instrumented scratch copy) schedule simulation of the concurrency primitives with goroutine-dump quiescence"},
    "C15": {"text": "Names travel the real path: a real syncer with an arbitrary raw instance name uploads at simulated instants, an independent parser and ParseName must agree on the "
                    "stored names (round trip, safe alphabet, order = time), a real receiver among foreign and near-miss objects must pick exactly the newest; plus a seeded build/parse sweep "
                    "over 1970-2262.",
            "note": "The name functions themselves are pure; the simulation covers the upload/delivery path and otherwise adds seeded generation, shrinking and replay. Simulated uploads happen "
                    "near the bubble's start time (2000-01-01); other eras are reached only by the build/parse sweep.",
            "technique": "deterministic simulation of the upload/listing/delivery path on the fake clock + seeded sweep of the name builder/parser against an independent parser"},
}
